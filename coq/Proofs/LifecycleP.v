(* C08: the reachable set of the lifecycle LTS is closed under every label; invariants hold on all of it. *)
From Coq Require Import List Bool.
Require Import GV.Lib.FinReach GV.Gen.LifecycleRules GV.Model.Lifecycle.
Import ListNotations.

Definition stepS (s : mst) (l : label) : option mst := option_map fst (step s l).

Lemma sstate_eqb_eq a b : sstate_eqb a b = true <-> a = b.
Proof. split; [destruct a, b; cbn; intros H; try discriminate; reflexivity|intros ->; destruct b; reflexivity]. Qed.
Lemma oss_eqb_eq a b : oss_eqb a b = true <-> a = b.
Proof. destruct a, b; cbn; split; intros H; try discriminate; try reflexivity.
  - apply sstate_eqb_eq in H. now subst. - inversion H; subst. now apply sstate_eqb_eq. Qed.
Lemma pc_eqb_eq a b : pc_eqb a b = true <-> a = b.
Proof. destruct a, b; cbn; split; intros H; try discriminate; try reflexivity.
  - apply Bool.eqb_prop in H. now subst. - inversion H; subst. apply Bool.eqb_reflx.
  - apply PeanoNat.Nat.eqb_eq in H. now subst. - inversion H; subst. apply PeanoNat.Nat.eqb_refl. Qed.

Lemma mst_eqb_eq a b : mst_eqb a b = true <-> a = b.
Proof.
  split.
  - unfold mst_eqb. intros H.
    repeat (match type of H with (_ && _) = true => apply andb_prop in H; let H' := fresh "K" in destruct H as [H H'] end).
    apply sstate_eqb_eq in H. apply oss_eqb_eq in K9. apply pc_eqb_eq in K8.
    repeat match goal with X : Bool.eqb _ _ = true |- _ => apply Bool.eqb_prop in X end.
    destruct a, b; cbn in *; subst; reflexivity.
  - intros ->. unfold mst_eqb.
    rewrite !Bool.eqb_reflx. rewrite (proj2 (sstate_eqb_eq _ _) eq_refl), (proj2 (oss_eqb_eq _ _) eq_refl), (proj2 (pc_eqb_eq _ _) eq_refl). reflexivity.
Qed.

(* labels: every label the model distinguishes is in all_labels, up to the parameters that matter *)
Definition canon_label (l : label) : label :=
  match l with
  | LocOutcome f true => LocOutcome false true
  | ConnOutcome (CCannotFind w) => ConnOutcome (CCannotFind (match w with O => 0 | 1 => 1 | _ => 2 end))
  | Ext e => if existsb (event_eqb e) ext_events then Ext e else Ext SPA_MAN_ENTER
  | _ => l end.

Definition closedb : bool :=
  forallb (fun s => forallb (fun l => match stepS s l with Some s' => mem s' reach | None => true end) (Ext SPA_MAN_ENTER :: all_labels)) reach.
Lemma reach_closed : closedb = true.
Proof. vm_compute. reflexivity. Qed.

Lemma init_in_reach : forall c, mem (entered c) reach = true.
Proof. intros []; vm_compute; reflexivity. Qed.

Lemma step_canon s l : stepS s l = stepS s (canon_label l).
Proof.
  destruct l as [|f r|o|e| | |]; try reflexivity.
  - destruct r; [|reflexivity]. unfold stepS. cbn [canon_label step]. destruct (ppc s); try reflexivity; try (destruct f; reflexivity).
  - destruct o as [| |w|]; try reflexivity. destruct w as [|[|w]]; try reflexivity.
  - cbn [canon_label]. destruct (existsb (event_eqb e) ext_events) eqn:E; [reflexivity|]. unfold stepS. cbn [step]. rewrite E.
    rewrite andb_false_r. cbn. rewrite andb_false_r. reflexivity.
Qed.

Lemma canon_in l : In (canon_label l) (Ext SPA_MAN_ENTER :: all_labels).
Proof.
  destruct l as [|f r|o|e| | |]; cbn [canon_label].
  - right. left. reflexivity.
  - destruct r; [right; do 3 right; left; reflexivity|]. destruct f; right; [right; left; reflexivity|do 2 right; left; reflexivity].
  - destruct o as [| |w|]; right; [do 4 right; left; reflexivity|do 5 right; left; reflexivity| |do 9 right; left; reflexivity].
    destruct w as [|[|w]]; [do 6 right; left; reflexivity|do 7 right; left; reflexivity|do 8 right; left; reflexivity].
  - destruct (existsb (event_eqb e) ext_events) eqn:E; [|left; reflexivity]. right. do 13 right. apply in_map.
    apply existsb_exists in E. destruct E as [x [Hx Ex]]. assert (e = x) by (destruct e, x; cbn in Ex; try discriminate; reflexivity). subst. exact Hx.
  - right. do 10 right. left. reflexivity.
  - right. do 11 right. left. reflexivity.
  - right. do 12 right. left. reflexivity.
Qed.

Global Opaque step handle reset.

Fixpoint runS (s : mst) (ls : list label) : option mst :=
  match ls with [] => Some s | l :: r => match stepS s l with Some s' => runS s' r | None => None end end.

(* every state reachable by ANY label list from either initial state is in the computed set *)
Theorem reach_complete c ls s' : runS (entered c) ls = Some s' -> In s' reach.
Proof.
  assert (G : forall ks s, In s reach -> forall s1, runS s ks = Some s1 -> In s1 reach).
  { clear. induction ks as [|l r IH]; intros s Hs s1 H; cbn [runS] in H; [inversion H; subst; exact Hs|].
    destruct (stepS s l) as [s2|] eqn:E; [|discriminate]. apply (IH s2); auto.
    pose proof reach_closed as C. unfold closedb in C. rewrite forallb_forall in C. specialize (C s Hs). rewrite forallb_forall in C.
    specialize (C (canon_label l) (canon_in l)). rewrite <- step_canon, E in C.
    unfold mem in C. apply existsb_exists in C. destruct C as [x [Hx Ex]]. apply mst_eqb_eq in Ex. subst. exact Hx. }
  intros H. apply (G ls (entered c)); auto.
  pose proof (init_in_reach c) as I. unfold mem in I. apply existsb_exists in I. destruct I as [x [Hx Ex]]. apply mst_eqb_eq in Ex. subst. exact Hx.
Qed.

Lemma inv_all (P : mst -> bool) : forallb P reach = true -> forall c ls s', runS (entered c) ls = Some s' -> P s' = true.
Proof. intros H c ls s' R. rewrite forallb_forall in H. apply H. eapply reach_complete; eauto. Qed.

(* ---------- invariants (each a forallb over the closed set) ---------- *)
Definition inv_connected (s : mst) : bool := negb (sstate_eqb (st s) CONNECTED) || (fac s && spa s).
Definition inv_ready_at_connected (s : mst) : bool := negb (v_ready_not_connected s).
Definition inv_teardown_le_ready (s : mst) : bool := negb (v_teardown_extra s).
Definition inv_teardown_with_facade (s : mst) : bool := negb (v_teardown_nofacade s).
Definition inv_sensor (s : mst) : bool := negb (v_sensor_stale s).
Definition inv_fuel (s : mst) : bool := negb (v_fuel s).
Definition inv_reset (s : mst) : bool :=
  let s' := fst (reset FUEL s) in sstate_eqb (st s') IDLE && negb (fac s') && negb (spa s') && negb (desc s').
(* whenever the pump is between phases (or has died on an exception) every LOCATING_STARTED / CONNECTION_STARTED that was
   delivered has been followed by its FINISHED event *)
Definition inv_phase_closed (s : mst) : bool :=
  match ppc s with
  | PIdle | PDead | PNotFound => negb (loc_open s) && negb (conn_open s)
  | _ => true end.

Lemma all_inv_connected : forallb inv_connected reach = true. Proof. vm_compute. reflexivity. Qed.
Lemma all_inv_ready : forallb inv_ready_at_connected reach = true. Proof. vm_compute. reflexivity. Qed.
Lemma all_inv_teardown_le : forallb inv_teardown_le_ready reach = true. Proof. vm_compute. reflexivity. Qed.
Lemma all_inv_sensor : forallb inv_sensor reach = true. Proof. vm_compute. reflexivity. Qed.
Lemma all_inv_fuel : forallb inv_fuel reach = true. Proof. vm_compute. reflexivity. Qed.
Lemma all_inv_reset : forallb inv_reset reach = true. Proof. vm_compute. reflexivity. Qed.

(* the rule table: CONNECTED is set exactly by the rule that announces CLIENT_FACADE_IS_READY, under the facade guard *)
Definition rule_sets_connected (r : list event * guard * list action) : bool :=
  existsb (fun a => match a with ASet CONNECTED => true | _ => false end) (snd r).
Definition rule_announces_ready (r : list event * guard * list action) : bool :=
  existsb (fun a => match a with ANest CLIENT_FACADE_IS_READY => true | _ => false end) (snd r).
Lemma ready_iff_connected_rule :
  forallb (fun r => Bool.eqb (rule_sets_connected r) (rule_announces_ready r) &&
                    (negb (rule_sets_connected r) || match snd (fst r) with GFacade => true | _ => false end)) rules = true.
Proof. vm_compute. reflexivity. Qed.

(* across awaits: every rule that announces CLIENT_FACADE_TEARDOWN is guarded on the state, and the FIRST thing it does - before it
   awaits anything, the client's handler included - is to move the state to one that is outside the guard of every such rule.
   So however long the client's handlers stay suspended and whichever task raises the next event, a second announcement needs a
   new CONNECTED, i.e. a new facade-ready. *)
Definition announces_teardown (r : list event * guard * list action) : bool :=
  existsb (fun a => match a with ANest CLIENT_FACADE_TEARDOWN => true | _ => false end) (snd r).
Definition first_set (r : list event * guard * list action) : option sstate := match snd r with ASet x :: _ => Some x | _ => None end.
Definition guard_states (r : list event * guard * list action) : option (list sstate) := match snd (fst r) with GState g => Some g | _ => None end.
Definition teardown_rules : list (list event * guard * list action) := filter announces_teardown rules.
Lemma teardown_rules_exclude_each_other :
  forallb (fun r1 => forallb (fun r2 => match first_set r1, guard_states r2 with
                                        | Some x, Some g => negb (existsb (sstate_eqb x) g)
                                        | _, _ => false end) teardown_rules) teardown_rules = true /\
  Nat.leb 3 (List.length teardown_rules) = true.
Proof. vm_compute. split; reflexivity. Qed.
