(* Instantiation of the accessor theorems for every item of every regenerated table. *)
From Coq Require Import ZArith List Bool String Lia.
Require Import GV.Lib.Bytes GV.Lib.Bits GV.Model.Accessor GV.Model.TableWf GV.Proofs.AccessorP GV.Proofs.TableP GV.Gen.AllTables.
Import ListNotations.
Open Scope Z_scope.

Definition shipped (m : tmodule) (t : titem) : Prop :=
  In m all_tables /\ In t (m_items m) /\ is_known_bad (m_file m) (d_tag (t_decl t)) = false.
Definition good_block (blk : list Z) : Prop := List.length blk = 1024%nat /\ bytes_ok blk = true.

Lemma shipped_item_ok m t : shipped m t -> item_ok t = true.
Proof. intros [Hm [Ht Hk]]. pose proof all_tables_ok as H. rewrite forallb_forall in H.
  eapply module_item_ok; eauto. Qed.

Lemma shipped_wf m t blk : shipped m t -> good_block blk -> wf (acc_of (t_decl t)) blk.
Proof. intros Hs [Hl Hb]. apply item_ok_wf; auto. eapply shipped_item_ok; eauto. Qed.

Lemma shipped_enum m t blk l : shipped m t -> good_block blk ->
  d_type (t_decl t) = TEnum -> d_rw (t_decl t) = true -> In l (a_items (acc_of (t_decl t))) ->
  exists w blk', write (acc_of (t_decl t)) blk (VStr l) = Some w /\ apply_write blk w = Some blk' /\
                 get_value (acc_of (t_decl t)) blk' = Some (VStr l).
Proof.
  intros Hs Hg Ht Hrw Hin. pose proof (shipped_wf m t blk Hs Hg) as W.
  apply enum_roundtrip; auto.
  destruct (item_ok_facts t (shipped_item_ok m t Hs)) as [Hsh _ _ Hln _ He].
  destruct (He Ht) as [ls [Hls Hcap]].
  unfold acc_of. cbn [a_bitpos a_mask a_items a_len]. rewrite Hsh, Hls.
  destruct (d_bitpos (t_decl t)); [destruct (s_mask (t_shape t)); [exact Hcap|]|].
  - rewrite Hln. destruct (s_two (t_shape t)); cbn; lia.
  - rewrite Hln. destruct (s_two (t_shape t)); cbn; lia.
Qed.

Lemma shipped_bool m t blk b : shipped m t -> good_block blk ->
  d_type (t_decl t) = TBool -> d_rw (t_decl t) = true ->
  exists w blk', write (acc_of (t_decl t)) blk (VBool b) = Some w /\ apply_write blk w = Some blk' /\
                 get_value (acc_of (t_decl t)) blk' = Some (VBool b).
Proof. intros Hs Hg Ht Hrw. apply bool_roundtrip; auto. eapply shipped_wf; eauto. Qed.

Lemma shipped_isolated_bytes m t blk v w blk' i : shipped m t -> good_block blk ->
  write (acc_of (t_decl t)) blk v = Some w -> apply_write blk w = Some blk' ->
  (Z.of_nat i < d_pos (t_decl t) \/ d_pos (t_decl t) + s_len (t_shape t) <= Z.of_nat i) ->
  nth i blk' 0 = nth i blk 0.
Proof.
  intros Hs Hg Hw Ha Hi. eapply write_isolated_bytes; eauto. eapply shipped_wf; eauto.
  destruct (item_ok_facts t (shipped_item_ok m t Hs)) as [Hsh _ _ _ _ _].
  unfold acc_of. cbn [a_pos a_len]. rewrite Hsh. exact Hi.
Qed.
