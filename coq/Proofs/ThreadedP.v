(* C20: FIFO paced sends, first-match dispatch, exception isolation, bounded handler life. *)
From Coq Require Import ZArith List Bool Lia.
Require Import GV.Model.Threaded.
Import ListNotations.
Open Scope Z_scope.

Section P.
  Variable dg : Type.
  Variable accepts : nat -> dg -> bool.
  Variable eff : nat -> dg -> effect.
  Notation iter := (iter dg accepts eff).
  Notation run := (run dg accepts eff).
  Notation dispatch := (dispatch dg accepts eff).

  (* ---------- FIFO: what has left the queue, followed by what is still queued, is exactly the enqueue order ---------- *)
  Definition Fifo (e : eng) : Prop := map fst (out e) ++ map fst (sendq e) = enq e.

  Lemma do_send_fifo e now : Fifo e -> Fifo (do_send e now).
  Proof. unfold Fifo, do_send. intros H. destruct (now - last_send e <? THROTTLE); [exact H|].
    destruct (sendq e) as [|[x [|]] r] eqn:E; [rewrite E; exact H| |]; cbn; rewrite map_app; cbn; rewrite <- app_assoc; cbn; rewrite <- H; reflexivity. Qed.

  Lemma iter_fifo e ev : Fifo e -> Fifo (iter e ev).
  Proof. intros H. destruct ev as [now inc]. unfold Threaded.iter. pose proof (do_send_fifo e now H) as H1. unfold Fifo in *.
    destruct (loop_all _ now) as [hs2 q]. cbn. rewrite map_app, app_assoc, H1. reflexivity. Qed.

  Theorem sends_fifo evs : forall e, Fifo e -> Fifo (run e evs).
  Proof. induction evs as [|ev r IH]; intros e H; [exact H|]. cbn. apply IH. apply iter_fifo. exact H. Qed.

  Lemma queue_send_fifo e x : Fifo e -> Fifo (queue_send e x).
  Proof. unfold Fifo, queue_send. cbn. intros H. rewrite map_app, app_assoc, H. reflexivity. Qed.

  (* the transmissions are a subsequence, in order, of what left the queue *)
  Lemma sent_subsequence e : map snd (sent e) = map fst (filter (fun p => match snd p with Some _ => true | None => false end) (out e)).
  Proof. unfold sent. induction (out e) as [|[x [t|]] r IH]; cbn; [reflexivity| |]; now rewrite IH. Qed.

  (* ---------- pacing: consecutive transmissions are at least 20 ms apart (monotone clock) ---------- *)
  Fixpoint gaps_ok (l : list (Z * nat)) : Prop :=
    match l with
    | (t1, _) :: (((t2, _) :: _) as r) => THROTTLE <= t2 - t1 /\ gaps_ok r
    | _ => True
    end.
  Definition Paced (e : eng) : Prop :=
    gaps_ok (sent e) /\ match rev (sent e) with (t, _) :: _ => t = last_send e | [] => True end.

  Lemma gaps_snoc l t x : gaps_ok l -> (match rev l with (t0, _) :: _ => THROTTLE <= t - t0 | [] => True end) -> gaps_ok (l ++ [(t, x)]).
  Proof.
    induction l as [|[t1 x1] r IH]; intros H Hl; [exact I|]. destruct r as [|[t2 x2] r'].
    - cbn in *. split; [exact Hl|exact I].
    - cbn [app gaps_ok] in *. destruct H as [H1 H2]. split; [exact H1|]. apply IH; [exact H2|].
      cbn [rev] in Hl. destruct (rev r' ++ [(t2, x2)]) as [|[t0 x0] s] eqn:E.
      + destruct (rev r'); discriminate.
      + cbn [rev]. rewrite E. cbn in *. exact Hl.
  Qed.

  Lemma do_send_paced e now : Paced e -> Paced (do_send e now).
  Proof.
    unfold Paced, do_send. intros [H1 H2]. destruct (now - last_send e <? THROTTLE) eqn:E; [split; assumption|].
    apply Z.ltb_ge in E. destruct (sendq e) as [|[x [|]] r]; [split; assumption| |].
    - unfold sent in *. cbn [out last_send]. rewrite flat_map_app. cbn [flat_map snd fst app]. split.
      + apply gaps_snoc; [exact H1|]. destruct (rev (flat_map _ (out e))) as [|[t0 x0] s]; [exact I|]. subst. exact E.
      + rewrite rev_app_distr. cbn. reflexivity.
    - unfold sent in *. cbn [out last_send]. rewrite flat_map_app. cbn [flat_map snd fst app]. rewrite app_nil_r. split; assumption.
  Qed.

  Lemma iter_paced e ev : Paced e -> Paced (iter e ev).
  Proof. intros H. destruct ev as [now inc]. unfold Threaded.iter. pose proof (do_send_paced e now H) as H1. unfold Paced in *.
    destruct (loop_all _ now) as [hs2 q]. cbn. exact H1. Qed.

  Theorem send_gap evs : forall e, Paced e -> Paced (run e evs).
  Proof. induction evs as [|ev r IH]; intros e H; [exact H|]. cbn. apply IH. apply iter_paced. exact H. Qed.

  (* ---------- first match; exception isolation ---------- *)
  Theorem first_match l1 h l2 now d :
    Forall (fun x => accepts (hid x) d = false) l1 -> accepts (hid h) d = true ->
    dispatch (l1 ++ h :: l2) now d =
      l1 ++ match eff (hid h) d with
            | Raise => h | Keep => mkH (hid h) now (tmo h) (left h) (rm h) (dest h) | Remove => mkH (hid h) now (tmo h) (left h) true (dest h) end :: l2.
  Proof.
    induction l1 as [|x r IH]; intros HF Ha.
    - cbn. rewrite Ha. destruct (eff (hid h) d); reflexivity.
    - inversion HF; subst. cbn. rewrite H1. f_equal. apply IH; auto.
  Qed.

  Theorem nobody_accepts l now d : Forall (fun x => accepts (hid x) d = false) l -> dispatch l now d = l.
  Proof. induction 1 as [|x r Hx Hr IH]; [reflexivity|]. cbn. rewrite Hx, IH. reflexivity. Qed.

  Theorem exception_isolated l1 h l2 now d :
    Forall (fun x => accepts (hid x) d = false) l1 -> accepts (hid h) d = true -> eff (hid h) d = Raise ->
    dispatch (l1 ++ h :: l2) now d = l1 ++ h :: l2.
  Proof. intros HF Ha He. rewrite first_match by assumption. rewrite He. reflexivity. Qed.

  (* ---------- bounded handler life ---------- *)
  Definition count (x : nat) (l : list nat) : nat := List.length (filter (Nat.eqb x) l).
  Definition present (x : nat) (l : list hst) : Prop := exists h, In h l /\ hid h = x.

  (* budget: transmissions of a request + retries it has left never exceed 1 + N; unique handler ids *)
  Definition Budget (x : nat) (n : nat) (e : eng) : Prop :=
    NoDup (map hid (hs e)) /\
    forall h, In h (hs e) -> hid h = x -> (count x (enq e) + left h = S n)%nat.

  Lemma count_app x a b : count x (a ++ b) = (count x a + count x b)%nat.
  Proof. unfold count. now rewrite filter_app, app_length. Qed.

  Lemma dispatch_ids l now d : map hid (dispatch l now d) = map hid l.
  Proof. induction l as [|h r IH]; [reflexivity|]. cbn. destruct (accepts (hid h) d); [destruct (eff (hid h) d); reflexivity|]. cbn. now rewrite IH. Qed.
  Lemma dispatch_left l now d h' : In h' (dispatch l now d) -> exists h, In h l /\ hid h = hid h' /\ left h = left h'.
  Proof. induction l as [|h r IH]; [intros []|]. cbn [Threaded.dispatch]. destruct (accepts (hid h) d).
    - destruct (eff (hid h) d); intros [E|E];
        first [ subst h'; exists h; cbn; repeat split; auto | exists h'; cbn; repeat split; auto ].
    - intros [E|E]; [subst; exists h'; cbn; auto|]. destruct (IH E) as [h0 [A B]]. exists h0. cbn; auto. Qed.

  Lemma loop_h_id now h : hid (loop_h now h) = hid h.
  Proof. unfold loop_h. destruct (timed_out h now); [destruct (left h)|]; reflexivity. Qed.
  Lemma loop_all_ids l now : map hid (fst (loop_all l now)) = map hid l.
  Proof. unfold loop_all. cbn [fst]. rewrite map_map. apply map_ext. intros h. apply loop_h_id. Qed.

  Lemma count_filter_unique (p : hst -> bool) l h x : NoDup (map hid l) -> In h l -> hid h = x ->
    count x (map hid (filter p l)) = if p h then 1%nat else 0%nat.
  Proof.
    induction l as [|a r IH]; intros Hnd Hin Hx; [destruct Hin|]. cbn [map] in Hnd. inversion_clear Hnd as [|? ? Ha Hr].
    assert (Z0 : forall q, ~ In x (map hid r) -> count x (map hid (filter q r)) = 0%nat).
    { intros q Hn. unfold count. destruct (filter (Nat.eqb x) (map hid (filter q r))) eqn:F; [reflexivity|exfalso].
      assert (Hm : In n (n :: l)) by (left; auto). rewrite <- F in Hm. apply filter_In in Hm. destruct Hm as [A B]. apply Nat.eqb_eq in B. subst n.
      apply Hn. apply in_map_iff in A. destruct A as [c [Ec Hc]]. apply filter_In in Hc. apply in_map_iff. exists c. tauto. }
    destruct Hin as [Hin|Hin].
    - subst a. cbn [filter]. destruct (p h); cbn [map].
      + unfold count. cbn [filter]. rewrite Hx, Nat.eqb_refl. cbn [List.length]. fold (count x (map hid (filter p r))). rewrite Z0; [reflexivity|]. rewrite <- Hx. exact Ha.
      + apply Z0. rewrite <- Hx. exact Ha.
    - cbn [filter]. assert (Hne : hid a <> x). { intros C. apply Ha. rewrite C, <- Hx. apply in_map. exact Hin. }
      destruct (p a); cbn [map]; [|apply IH; auto]. unfold count. cbn [filter].
      replace (Nat.eqb x (hid a)) with false by (symmetry; apply Nat.eqb_neq; auto). apply IH; auto.
  Qed.

  (* the loop: each present handler either keeps its budget or trades one retry for one queued send *)
  Lemma loop_all_budget l now x : NoDup (map hid l) ->
    forall h', In h' (fst (loop_all l now)) -> hid h' = x ->
    exists h, In h l /\ hid h = x /\ (count x (map fst (snd (loop_all l now))) + left h' = left h)%nat.
  Proof.
    intros Hnd h' Hin Hx. unfold loop_all in *. cbn [fst snd] in *. apply in_map_iff in Hin. destruct Hin as [h [Eh Hin]].
    exists h. assert (Hid : hid h = x) by (rewrite <- Hx, <- Eh; symmetry; apply loop_h_id). repeat split; auto.
    rewrite map_map. rewrite (map_ext (fun x0 : hst => fst (hid x0, dest x0)) hid) by reflexivity.
    rewrite (count_filter_unique (retried now) l h x Hnd Hin Hid). subst h'. unfold retried, loop_h.
    destruct (timed_out h now); [destruct (left h)|]; cbn; lia.
  Qed.

  Lemma do_send_hs e now : map hid (hs (do_send e now)) = map hid (hs e) /\
    (forall h', In h' (hs (do_send e now)) -> exists h, In h (hs e) /\ hid h = hid h' /\ left h = left h') /\ enq (do_send e now) = enq e.
  Proof.
    unfold do_send. destruct (now - last_send e <? THROTTLE); [repeat split; eauto|]. destruct (sendq e) as [|[x [|]] r]; [repeat split; eauto| |repeat split; eauto].
    cbn [hs enq]. unfold mark_sent. repeat split.
    - rewrite map_map. apply map_ext. intros h. destruct (Nat.eqb (hid h) x); reflexivity.
    - intros h' Hh. apply in_map_iff in Hh. destruct Hh as [h [E Hin]]. exists h. destruct (Nat.eqb (hid h) x); subst h'; auto.
  Qed.

  Lemma iter_budget x n e ev : Budget x n e -> Budget x n (iter e ev).
  Proof.
    intros [Hnd HB]. destruct ev as [now inc]. unfold Threaded.iter.
    set (e1 := do_send e now). destruct (do_send_hs e now) as [E1i [E1l E1q]]. fold e1 in E1i, E1l, E1q.
    set (hs1 := match inc with Some d => dispatch (hs e1) now d | None => hs e1 end).
    assert (Hids1 : map hid hs1 = map hid (hs e)) by (unfold hs1; destruct inc; [rewrite dispatch_ids|]; rewrite E1i; reflexivity).
    assert (Hleft1 : forall h', In h' hs1 -> exists h, In h (hs e) /\ hid h = hid h' /\ left h = left h').
    { intros h' Hh. unfold hs1 in Hh. destruct inc.
      - destruct (dispatch_left _ _ _ _ Hh) as [h0 [A [B C]]]. destruct (E1l h0 A) as [h1 [A1 [B1 C1]]]. exists h1. repeat split; auto; congruence.
      - destruct (E1l h' Hh) as [h1 [A1 [B1 C1]]]. exists h1. auto. }
    pose proof (loop_all_budget hs1 now x ltac:(rewrite Hids1; exact Hnd)) as LB. pose proof (loop_all_ids hs1 now) as LI.
    destruct (loop_all hs1 now) as [hs2 q]. cbn [fst snd] in *. unfold Budget. cbn [hs enq]. split.
    - assert (G : forall l, NoDup (map hid l) -> NoDup (map hid (filter (fun h => negb (rm h)) l))).
      { induction l as [|a l IHl]; intros Hn; [constructor|]. cbn [map] in Hn. inversion Hn; subst. cbn [filter]. destruct (negb (rm a)); cbn [map]; [constructor; auto|auto].
        intros C. apply H1. apply in_map_iff in C. destruct C as [b [Eb Hb]]. apply filter_In in Hb. apply in_map_iff. exists b. tauto. }
      apply G. rewrite LI, Hids1. exact Hnd.
    - intros h' Hin Hx. apply filter_In in Hin. destruct Hin as [Hin _]. destruct (LB h' Hin Hx) as [h1 [A [B C]]].
      destruct (Hleft1 h1 A) as [h0 [A0 [B0 C0]]]. rewrite E1q, count_app. specialize (HB h0 A0 ltac:(congruence)).
      lia.
  Qed.

  (* a request with N retries is transmitted at most 1 + N times, whatever the schedule; while it is registered the
     number of transmissions queued so far plus the retries left is exactly 1 + N - so when the engine removes it for
     lack of retries it has been (re)transmitted exactly N times *)
  Theorem bounded_retransmissions x n evs : forall e, Budget x n e -> Budget x n (run e evs).
  Proof. induction evs as [|ev r IH]; intros e H; [exact H|]. cbn. apply IH. apply iter_budget. exact H. Qed.

  (* once removed, a handler is never transmitted again by the engine: only present handlers are re-queued *)
  Lemma loop_queue_present l now y : In y (map fst (snd (loop_all l now))) -> In y (map hid l).
  Proof. unfold loop_all. cbn [snd]. rewrite map_map. intros H. apply in_map_iff in H. destruct H as [h [E Hh]]. cbn [fst] in E. apply filter_In in Hh. apply in_map_iff. exists h. tauto. Qed.

  Theorem removed_never_requeued e ev x : ~ In x (map hid (hs e)) -> count x (enq (iter e ev)) = count x (enq e).
  Proof.
    intros Hn. destruct ev as [now inc]. unfold Threaded.iter.
    set (e1 := do_send e now). destruct (do_send_hs e now) as [E1i [_ E1q]]. fold e1 in E1i, E1q.
    set (hs1 := match inc with Some d => dispatch (hs e1) now d | None => hs e1 end).
    assert (Hids1 : map hid hs1 = map hid (hs e)) by (unfold hs1; destruct inc; [rewrite dispatch_ids|]; rewrite E1i; reflexivity).
    pose proof (loop_queue_present hs1 now) as LQ. destruct (loop_all hs1 now) as [hs2 q]. cbn [snd enq] in *.
    rewrite E1q, count_app. assert (count x (map fst q) = 0)%nat; [|lia]. unfold count.
    destruct (filter (Nat.eqb x) (map fst q)) eqn:F; [reflexivity|exfalso].
    assert (Hm : In n (n :: l)) by (left; auto). rewrite <- F in Hm. apply filter_In in Hm. destruct Hm as [A B]. apply Nat.eqb_eq in B. subst.
    apply Hn. rewrite <- Hids1. apply LQ. exact A.
  Qed.

  (* an answered request (its reply sets should_remove_handler) is gone at the end of the same iteration *)
  Theorem answered_removed e now d l1 h l2 :
    hs (do_send e now) = l1 ++ h :: l2 -> NoDup (map hid (hs e)) ->
    Forall (fun x => accepts (hid x) d = false) l1 -> accepts (hid h) d = true -> eff (hid h) d = Remove ->
    ~ In (hid h) (map hid (hs (iter e (now, Some d)))).
  Proof.
    intros Hh Hnd0 HF Ha He. unfold Threaded.iter.
    assert (Hnd : NoDup (map hid (hs (do_send e now)))) by (destruct (do_send_hs e now) as [E _]; rewrite E; exact Hnd0).
    set (e1 := do_send e now) in *.
    rewrite Hh, (first_match l1 h l2 now d HF Ha), He.
    set (h' := mkH (hid h) now (tmo h) (left h) true (dest h)).
    assert (G : forall l, (forall a, In a l -> hid a = hid h -> rm a = true) ->
                forall a, In a (fst (loop_all l now)) -> hid a = hid h -> rm a = true).
    { intros l Hall a Hin Hid. unfold loop_all in Hin. cbn [fst] in Hin. apply in_map_iff in Hin. destruct Hin as [a0 [Ea Hin]].
      assert (Hid0 : hid a0 = hid h) by (rewrite <- Hid, <- Ea; symmetry; apply loop_h_id).
      specialize (Hall a0 Hin Hid0). subst a. unfold loop_h. destruct (timed_out a0 now); [destruct (left a0)|]; cbn; auto. }
    destruct (loop_all (l1 ++ h' :: l2) now) as [hs2 q] eqn:EL. cbn [hs].
    intros C. apply in_map_iff in C. destruct C as [a [Ea Hin]]. apply filter_In in Hin. destruct Hin as [Hin Hrm].
    assert (R : rm a = true); [|rewrite R in Hrm; discriminate].
    apply (G (l1 ++ h' :: l2)); [|rewrite EL; exact Hin|exact Ea].
    intros a0 Hin0 Hid0. apply in_app_or in Hin0. destruct Hin0 as [Hin0|[Hin0|Hin0]].
    - exfalso. rewrite Hh, map_app in Hnd. cbn [map] in Hnd. apply NoDup_remove_2 in Hnd. apply Hnd. apply in_or_app. left. rewrite <- Hid0. apply in_map. exact Hin0.
    - subst a0. reflexivity.
    - exfalso. rewrite Hh, map_app in Hnd. cbn [map] in Hnd. apply NoDup_remove_2 in Hnd. apply Hnd. apply in_or_app. right. rewrite <- Hid0. apply in_map. exact Hin0.
  Qed.
End P.
