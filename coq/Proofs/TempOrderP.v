(* C14: the presentation of temperatures preserves the order of ANY two stored words (not only adjacent ones): adjacent strict
   monotonicity over the complete domain (TempP, closed) + transitivity of '<' on finite binary64 values (FloatOrder, which relies on
   the standard library's specification axioms of the primitive floats and on the real numbers). *)
From Coq Require Import ZArith List Bool Lia PrimFloat.
Require Import GV.Model.Temp GV.Proofs.TempP GV.Proofs.FloatOrder.
Import ListNotations.
Open Scope Z_scope.

Definition fin_ok (u : unit) (r : Z) : bool := is_finite (get_temp u r).
Lemma get_finite_sweep : forallb (fun r => fin_ok UC r && fin_ok UF r) (upto (Z.to_nat 65536) 0) = true.
Proof. vm_compute. reflexivity. Qed.
Lemma get_finite u r : 0 <= r < 65536 -> is_finite (get_temp u r) = true.
Proof.
  intros H. assert (Hin : In r (upto (Z.to_nat 65536) 0)) by (apply upto_In; lia).
  pose proof (proj1 (forallb_forall _ _) get_finite_sweep r Hin) as G. apply andb_prop in G. destruct G as [A B]. destruct u; assumption.
Qed.
Lemma get_adjacent u r : 0 <= r < 65535 -> (get_temp u r <? get_temp u (r + 1))%float = true.
Proof.
  intros H. assert (Hin : In r (upto (Z.to_nat 65535) 0)) by (apply upto_In; lia).
  pose proof (proj1 (forallb_forall _ _) get_monotone_sweep r Hin) as G. apply andb_prop in G. destruct G as [A B]. destruct u; assumption.
Qed.
Theorem get_order u : forall n r, 0 <= r -> r + Z.of_nat (S n) < 65536 -> (get_temp u r <? get_temp u (r + Z.of_nat (S n)))%float = true.
Proof.
  induction n as [|n IH]; intros r H0 H1.
  - change (Z.of_nat 1) with 1. apply get_adjacent. lia.
  - replace (r + Z.of_nat (S (S n))) with ((r + Z.of_nat (S n)) + 1) by lia.
    apply (ltb_trans_finite _ (get_temp u (r + Z.of_nat (S n)))).
    + apply get_finite. lia.
    + apply get_finite. lia.
    + apply get_finite. lia.
    + apply IH; lia.
    + apply get_adjacent. lia.
Qed.
