From Coq Require Import ZArith List Bool String Lia.
Require Import GV.Lib.Bytes GV.Model.Accessor GV.Model.TableWf GV.Proofs.TableP GV.Proofs.ShippedP GV.Gen.AllTables GV.Gen.PinCheck.
Import ListNotations.
Open Scope Z_scope.

Lemma module_ok_in m : In m all_tables -> module_ok m = true.
Proof. intros H. pose proof all_tables_ok as A. rewrite forallb_forall in A. auto. Qed.

Lemma keys_and_tags m : In m all_tables -> keys_resolve m = true /\ nodup_str (tags m) = true.
Proof. intros H. pose proof (module_ok_in m H) as A. unfold module_ok in A.
  apply andb_prop in A. destruct A as [A A3]. apply andb_prop in A. destruct A as [A1 A2]. auto. Qed.

Lemma find_some_in {A} (f : A -> bool) l x : find f l = Some x -> In x l /\ f x = true.
Proof. apply find_some. Qed.

Lemma pinned_unchanged p : In p pinned_tables ->
  exists c, In c all_tables /\ m_file c = m_file p /\ layout_eqb p c = true.
Proof.
  intros H. pose proof all_pinned_ok as A. rewrite forallb_forall in A. specialize (A p H).
  unfold pin_ok in A. destruct (find_module (m_file p)) as [c|] eqn:E; [|discriminate].
  unfold find_module in E. apply find_some in E. destruct E as [E1 E2]. apply String.eqb_eq in E2.
  exists c. auto.
Qed.
