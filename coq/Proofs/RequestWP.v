(* C06, waiting time: facts about EVERY stream the timed layer (Model/RequestW.v) accepts.
   - the inner stream is accepted by the request-engine acceptor, so every theorem of RequestP applies to it;
   - every grant of the lock happens no later than the promise computed when the caller arrived;
   - the promise is at most: (the moment the present holder must be finished, or the arrival) + for every caller ahead one
     scheduling slot and its own time bound + one slot.  *)
From Coq Require Import ZArith List Bool Lia.
Require Import GV.Model.Request GV.Model.RequestW GV.Proofs.RequestP.
Import ListNotations.
Open Scope Z_scope.

(* ---------- runs ---------- *)
Lemma wrun_app c cS : forall a x b, wrun c cS x (a ++ b) = match wrun c cS x a with Some y => wrun c cS y b | None => None end.
Proof. induction a as [|w a IH]; intros x b; cbn [wrun app]; [reflexivity|]. destruct (wstep c cS x w); [apply IH|reflexivity]. Qed.
Lemma wrun_snoc c cS x ws w : wrun c cS x (ws ++ [w]) = match wrun c cS x ws with Some y => wstep c cS y w | None => None end.
Proof. rewrite wrun_app. destruct (wrun c cS x ws) as [y|]; [|reflexivity]. cbn [wrun]. destruct (wstep c cS y w); reflexivity. Qed.

Ltac wdm H := match type of H with (match ?x with _ => _ end) = _ => destruct x eqn:? | (if ?x then _ else _) = _ => destruct x eqn:? end.

(* one step of the layer is one step (or none) of the engine acceptor *)
Lemma wstep_inner c cS s g w s' g' : wstep c cS (s, g) w = Some (s', g') ->
  match w with WL l => step c s l = Some s' | WTick _ => s' = s end.
Proof.
  intros H. destruct w as [l|t]; cbn [wstep] in H.
  - destruct l; cbn [time_of] in H; repeat (first [discriminate H | wdm H]); try discriminate H; injection H as <- <-; assumption || reflexivity.
  - wdm H; [|discriminate]. injection H as <- <-. reflexivity.
Qed.

Theorem inner_accepted c cS : forall ws s g s' g', wrun c cS (s, g) ws = Some (s', g') -> run c s (inner ws) = Some s'.
Proof.
  induction ws as [|w ws IH]; intros s g s' g' H; cbn [wrun inner flat_map] in *.
  - injection H as <- <-. reflexivity.
  - destruct (wstep c cS (s, g) w) as [[s1 g1]|] eqn:E; [|discriminate]. apply wstep_inner in E. destruct w as [l|t].
    + cbn [app run]. rewrite E. exact (IH _ _ _ _ H).
    + subst s1. cbn [app]. exact (IH _ _ _ _ H).
Qed.

(* ---------- what one engine step does to the holder and the queue ---------- *)
Lemma step_gate c s b s' : step c s (LGate b) = Some s' -> holder s' = holder s /\ waiters s' = waiters s.
Proof. intros H. inv_step H. cbn. auto. Qed.
Lemma step_call c s k s' : step c s (LCall k) = Some s' -> holder s' = holder s /\ waiters s' = waiters s ++ [k] /\ 0 <= c_retries k.
Proof. intros H. inv_step H. cbn. apply andb_prop in Heqb. destruct Heqb as [_ Hr]. apply Z.leb_le in Hr. auto. Qed.
Lemma step_acquire c s i t s' : step c s (LAcquire i t) = Some s' ->
  holder s = None /\ exists k rest h', waiters s = k :: rest /\ c_id k = i /\ waiters s' = rest /\ holder s' = Some h' /\ h_call h' = k /\ h_acq h' = t.
Proof. intros H. inv_step H. cbn. apply Nat.eqb_eq in Heqb. split; [reflexivity|]. do 3 eexists. repeat split; eauto. Qed.
Lemma step_release c s i t ok s' : step c s (LRelease i t ok) = Some s' -> exists h, holder s = Some h /\ holder s' = None /\ waiters s' = waiters s.
Proof. intros H. inv_step H. cbn. eexists. repeat split; eauto. Qed.
Definition was_holder (s : st) (i : nat) : bool := match holder s with Some h => Nat.eqb (c_id (h_call h)) i | None => false end.
Lemma step_cancel c s i s' : step c s (LCancel i) = Some s' ->
  (was_holder s i = true /\ holder s' = None /\ waiters s' = waiters s) \/
  (was_holder s i = false /\ holder s' = holder s /\ waiters s' = filter (fun k => negb (Nat.eqb (c_id k) i)) (waiters s)).
Proof.
  intros H. unfold step in H. unfold was_holder. destruct (holder s) as [h|] eqn:Hh.
  - destruct (Nat.eqb (c_id (h_call h)) i).
    + injection H as <-. left. cbn. auto.
    + destruct (mem_id i (ids (waiters s))); [|discriminate]. injection H as <-. right. cbn. auto.
  - destruct (mem_id i (ids (waiters s))); [|discriminate]. injection H as <-. right. cbn. auto.
Qed.
Definition holder_move (l : label) : bool :=
  match l with LSend _ _ _ | LMiss _ _ | LHit _ _ | LTimeout _ _ | LPauseDone _ _ => true | _ => false end.
Lemma step_holder_move c s l s' : holder_move l = true -> step c s l = Some s' ->
  exists h h', holder s = Some h /\ holder s' = Some h' /\ h_acq h' = h_acq h /\ h_call h' = h_call h /\ waiters s' = waiters s.
Proof.
  intros M H. destruct l; try discriminate M; inv_step H; cbn; do 2 eexists; repeat split; eauto.
Qed.

(* ---------- deadlines ---------- *)
Fixpoint endb (c : cfg) (cS : Z) (base : Z) (q : list wentry) : Z :=
  match q with [] => base | w :: r => endb c cS (Z.max base (we_arr w) + cJ c + hold_bound c cS (we_call w)) r end.

Lemma dl_snoc c cS : forall q base e, deadlines c cS base (q ++ [e]) = deadlines c cS base q ++ [Z.max (endb c cS base q) (we_arr e) + cJ c].
Proof. induction q as [|w q IH]; intros base e; cbn [deadlines endb app]; [reflexivity|]. rewrite IH. reflexivity. Qed.

Lemma dl_mono c cS : forall q base base' ps, base <= base' -> Forall2 Z.le (deadlines c cS base' q) ps -> Forall2 Z.le (deadlines c cS base q) ps.
Proof.
  induction q as [|w q IH]; intros base base' ps Hb H; cbn [deadlines] in *; [exact H|].
  inversion H as [|x y l l' Hxy Hrest]; subst. constructor; [lia|]. eapply IH; [|exact Hrest]. lia.
Qed.

Lemma dl_filter c cS (f : wentry -> bool) : 0 <= cJ c -> forall q base base',
  (forall w, In w q -> 0 <= hold_bound c cS (we_call w)) -> base <= base' ->
  Forall2 Z.le (deadlines c cS base' q) (map we_prom q) ->
  Forall2 Z.le (deadlines c cS base (filter f q)) (map we_prom (filter f q)).
Proof.
  intros HJ. induction q as [|w q IH]; intros base base' Hpos Hb H; cbn [deadlines filter map] in *; [constructor|].
  inversion H as [|x y l l' Hxy Hrest]; subst.
  assert (Hw : 0 <= hold_bound c cS (we_call w)) by (apply Hpos; left; reflexivity).
  assert (Hq : forall w0, In w0 q -> 0 <= hold_bound c cS (we_call w0)) by (intros w0 H0; apply Hpos; right; exact H0).
  destruct (f w); cbn [deadlines map].
  - constructor; [lia|]. eapply IH; [exact Hq| |exact Hrest]. lia.
  - eapply IH; [exact Hq| |exact Hrest]. lia.
Qed.

Definition load (c : cfg) (cS : Z) (q : list wentry) : Z := fold_right (fun w a => cJ c + hold_bound c cS (we_call w) + a) 0 q.
Lemma endb_upper c cS : 0 <= cJ c -> forall q base m,
  (forall w, In w q -> 0 <= hold_bound c cS (we_call w) /\ we_arr w <= m) -> endb c cS base q <= Z.max base m + load c cS q.
Proof.
  intros HJ. induction q as [|w q IH]; intros base m Hq; cbn [endb load fold_right]; [lia|].
  destruct (Hq w (or_introl eq_refl)) as [Hw Ha].
  specialize (IH (Z.max base (we_arr w) + cJ c + hold_bound c cS (we_call w)) m (fun w0 H0 => Hq w0 (or_intror H0))).
  fold (load c cS q). lia.
Qed.

Lemma load_nonneg c cS : 0 <= cJ c -> forall q, (forall w, In w q -> 0 <= hold_bound c cS (we_call w)) -> 0 <= load c cS q.
Proof.
  intros HJ. induction q as [|w q IH]; intros Hq; cbn [load fold_right]; [lia|]. fold (load c cS q).
  pose proof (Hq w (or_introl eq_refl)). specialize (IH (fun w0 H0 => Hq w0 (or_intror H0))). lia.
Qed.

(* ---------- the holder's allowance never exceeds its time bound ---------- *)
Lemma hb_nonneg c cS k : cfg_ok c -> 0 <= cS -> 0 <= c_retries k -> 0 <= hold_bound c cS k.
Proof.
  intros [CT [CP [CJ CE]]] HS Hr. unfold hold_bound, bound. destruct (is_struct (c_kind k)); [exact HS|].
  assert (0 <= c_retries k * U c) by (apply Z.mul_nonneg_nonneg; unfold U; lia). lia.
Qed.

Lemma allow_le c cS s h a : cfg_ok c -> Tim c s -> holder s = Some h -> allowance c cS s = Some a -> a <= h_acq h + hold_bound c cS (h_call h).
Proof.
  intros [CT [CP [CJ CE]]] [TH _] Hh Ha. unfold allowance in Ha. rewrite Hh in Ha. injection Ha as <-. unfold hold_bound.
  destruct (c_kind (h_call h)) eqn:K; cbn [is_struct]; [|lia].
  destruct (TH h Hh K) as [[T0 T1] T2]. unfold bound.
  assert (M : h_sends h * U c <= c_retries (h_call h) * U c) by (apply Z.mul_le_mono_nonneg_r; unfold U; lia).
  assert (EU : U c = cT c + cE c + cP c + 3 * cJ c) by reflexivity.
  destruct (h_phase h) as [| t0 seg | | b]; lia.
Qed.

(* ---------- the invariant ---------- *)
Definition WInv (c : cfg) (cS : Z) (s : st) (g : ghost) : Prop :=
  map we_call (wq g) = waiters s /\
  Forall2 Z.le (deadlines c cS (free_by c cS s g) (wq g)) (map we_prom (wq g)) /\
  (forall h, holder s = Some h -> clock g <= h_acq h + hold_bound c cS (h_call h)) /\
  (forall w, In w (wq g) -> we_arr w <= clock g) /\
  broken g = 0.

Lemma clock_ok_spec c cS s g t : clock_ok c cS s g t = true ->
  clock g <= t /\ forall a, allowance c cS s = Some a -> t <= a.
Proof.
  unfold clock_ok. intros H. apply andb_prop in H. destruct H as [H1 H2]. apply Z.leb_le in H1. split; [exact H1|].
  intros a Ha. rewrite Ha in H2. apply Z.leb_le in H2. exact H2.
Qed.
Lemma allowance_some c cS s h : holder s = Some h -> exists a, allowance c cS s = Some a.
Proof. intros Hh. unfold allowance. rewrite Hh. eexists. reflexivity. Qed.

Lemma map_filter_call i (q : list wentry) :
  map we_call (filter (fun w => negb (Nat.eqb (c_id (we_call w)) i)) q) = filter (fun k => negb (Nat.eqb (c_id k) i)) (map we_call q).
Proof. induction q as [|w q IH]; cbn [filter map]; [reflexivity|]. destruct (negb (Nat.eqb (c_id (we_call w)) i)); cbn [map]; rewrite IH; reflexivity. Qed.

Lemma waiters_pos c cS s g : cfg_ok c -> 0 <= cS -> Tim c s -> map we_call (wq g) = waiters s ->
  forall w, In w (wq g) -> 0 <= hold_bound c cS (we_call w).
Proof.
  intros OK HS [_ [TW _]] A w Hw. apply hb_nonneg; auto. apply TW. rewrite <- A. apply in_map. exact Hw.
Qed.

Lemma winv_step c cS s g w s' g' : cfg_ok c -> 0 <= cS -> Tim c s -> WInv c cS s g -> wstep c cS (s, g) w = Some (s', g') -> WInv c cS s' g'.
Proof.
  intros OK HS TI [IA [ID [IC [IR IB]]]] H. pose proof OK as [CT [CP [CJ CE]]].
  destruct w as [l|t]; cbn [wstep] in H.
  2:{ (* tick *) wdm H; [|discriminate]. injection H as <- <-. apply clock_ok_spec in Heqb. destruct Heqb as [Hm Ha].
      unfold WInv, set_clock, free_by in *. cbn [clock free_at wq broken]. repeat split; auto.
      - intros h Hh. destruct (allowance_some c cS s h Hh) as [a Ea]. specialize (Ha a Ea). pose proof (allow_le c cS s h a OK TI Hh Ea). lia.
      - intros w Hw. specialize (IR w Hw). lia. }
  destruct l; cbn [time_of] in H.
  - (* gate *) wdm H; [|discriminate]. injection H as <- <-. apply step_gate in Heqo. destruct Heqo as [Eh Ew].
    unfold WInv, free_by in *. rewrite Eh, Ew. repeat split; auto.
  - (* call *) wdm H; [|discriminate]. injection H as <- <-. apply step_call in Heqo. destruct Heqo as [Eh [Ew Hr]].
    unfold WInv in *. cbn [clock free_at wq broken].
    assert (EF : forall g0, free_at g0 = free_at g -> free_by c cS s0 g0 = free_by c cS s g) by (intros g0 E0; unfold free_by; rewrite Eh, E0; reflexivity).
    rewrite EF by reflexivity. split; [|split; [|split; [|split]]].
    + rewrite map_app, IA, Ew. reflexivity.
    + rewrite !dl_snoc, last_last, map_app. cbn [map we_arr we_prom]. apply Forall2_app; [exact ID|]. constructor; [lia|constructor].
    + intros h Hh. rewrite Eh in Hh. exact (IC h Hh).
    + intros w Hw. apply in_app_or in Hw. destruct Hw as [Hw|[<-|[]]]; [exact (IR w Hw)|cbn; lia].
    + exact IB.
  - (* acquire *) destruct (wq g) as [|w r] eqn:Q; [discriminate|]. wdm H; [|discriminate]. wdm H; [|discriminate]. injection H as <- <-.
    apply andb_prop in Heqb. destruct Heqb as [Hm Hp]. apply Z.leb_le in Hm. apply Z.leb_le in Hp.
    apply step_acquire in Heqo. destruct Heqo as [Hn [k [rest [h' [Ew [Ei [Ew' [Eh' [Ec Ea]]]]]]]]].
    cbn [map] in IA. rewrite Ew in IA. injection IA as Ek IA.
    unfold free_by in ID. rewrite Hn in ID. cbn [deadlines map] in ID. inversion ID as [|x y l l' Hxy Hrest]; subst x y l l'.
    unfold WInv. cbn [clock free_at wq broken]. split; [|split; [|split; [|split]]].
    + rewrite Ew'. exact IA.
    + unfold free_by. rewrite Eh'. cbn [free_at]. rewrite Ec, Ea, <- Ek. eapply dl_mono; [|exact Hrest]. lia.
    + intros h Hh. rewrite Eh' in Hh. injection Hh as <-. rewrite Ea, Ec.
      assert (0 <= hold_bound c cS k); [|lia]. apply hb_nonneg; auto. destruct TI as [_ [TW _]]. apply TW. rewrite Ew. left. reflexivity.
    + intros w0 Hw0. assert (we_arr w0 <= clock g) by (apply IR; right; exact Hw0). lia.
    + assert (E : (t <=? we_prom w) = true) by (apply Z.leb_le; lia). rewrite E. exact IB.
  - (* send *) wdm H; [|discriminate]. wdm H; [|discriminate]. injection H as <- <-. apply clock_ok_spec in Heqb. destruct Heqb as [Hm Ha].
    apply step_holder_move in Heqo; [|reflexivity]. destruct Heqo as [h [h' [Hh [Hh' [Eacq [Ecall Ew]]]]]].
    unfold WInv, set_clock, free_by in *. cbn [clock free_at wq broken]. rewrite Hh in ID. rewrite Hh', Eacq, Ecall, Ew. repeat split; auto.
    + intros h0 E0. injection E0 as <-. rewrite Eacq, Ecall. destruct (allowance_some c cS s h Hh) as [a Ea]. specialize (Ha a Ea). pose proof (allow_le c cS s h a OK TI Hh Ea). lia.
    + intros w Hw. specialize (IR w Hw). lia.
  - (* miss *) wdm H; [|discriminate]. wdm H; [|discriminate]. injection H as <- <-. apply clock_ok_spec in Heqb. destruct Heqb as [Hm Ha].
    apply step_holder_move in Heqo; [|reflexivity]. destruct Heqo as [h [h' [Hh [Hh' [Eacq [Ecall Ew]]]]]].
    unfold WInv, set_clock, free_by in *. cbn [clock free_at wq broken]. rewrite Hh in ID. rewrite Hh', Eacq, Ecall, Ew. repeat split; auto.
    + intros h0 E0. injection E0 as <-. rewrite Eacq, Ecall. destruct (allowance_some c cS s h Hh) as [a Ea]. specialize (Ha a Ea). pose proof (allow_le c cS s h a OK TI Hh Ea). lia.
    + intros w Hw. specialize (IR w Hw). lia.
  - (* hit *) wdm H; [|discriminate]. wdm H; [|discriminate]. injection H as <- <-. apply clock_ok_spec in Heqb. destruct Heqb as [Hm Ha].
    apply step_holder_move in Heqo; [|reflexivity]. destruct Heqo as [h [h' [Hh [Hh' [Eacq [Ecall Ew]]]]]].
    unfold WInv, set_clock, free_by in *. cbn [clock free_at wq broken]. rewrite Hh in ID. rewrite Hh', Eacq, Ecall, Ew. repeat split; auto.
    + intros h0 E0. injection E0 as <-. rewrite Eacq, Ecall. destruct (allowance_some c cS s h Hh) as [a Ea]. specialize (Ha a Ea). pose proof (allow_le c cS s h a OK TI Hh Ea). lia.
    + intros w Hw. specialize (IR w Hw). lia.
  - (* timeout *) wdm H; [|discriminate]. wdm H; [|discriminate]. injection H as <- <-. apply clock_ok_spec in Heqb. destruct Heqb as [Hm Ha].
    apply step_holder_move in Heqo; [|reflexivity]. destruct Heqo as [h [h' [Hh [Hh' [Eacq [Ecall Ew]]]]]].
    unfold WInv, set_clock, free_by in *. cbn [clock free_at wq broken]. rewrite Hh in ID. rewrite Hh', Eacq, Ecall, Ew. repeat split; auto.
    + intros h0 E0. injection E0 as <-. rewrite Eacq, Ecall. destruct (allowance_some c cS s h Hh) as [a Ea]. specialize (Ha a Ea). pose proof (allow_le c cS s h a OK TI Hh Ea). lia.
    + intros w Hw. specialize (IR w Hw). lia.
  - (* pause done *) wdm H; [|discriminate]. wdm H; [|discriminate]. injection H as <- <-. apply clock_ok_spec in Heqb. destruct Heqb as [Hm Ha].
    apply step_holder_move in Heqo; [|reflexivity]. destruct Heqo as [h [h' [Hh [Hh' [Eacq [Ecall Ew]]]]]].
    unfold WInv, set_clock, free_by in *. cbn [clock free_at wq broken]. rewrite Hh in ID. rewrite Hh', Eacq, Ecall, Ew. repeat split; auto.
    + intros h0 E0. injection E0 as <-. rewrite Eacq, Ecall. destruct (allowance_some c cS s h Hh) as [a Ea]. specialize (Ha a Ea). pose proof (allow_le c cS s h a OK TI Hh Ea). lia.
    + intros w Hw. specialize (IR w Hw). lia.
  - (* release *) wdm H; [|discriminate]. wdm H; [|discriminate]. injection H as <- <-. apply clock_ok_spec in Heqb. destruct Heqb as [Hm Ha].
    apply step_release in Heqo. destruct Heqo as [h [Hh [Hh' Ew]]].
    destruct (allowance_some c cS s h Hh) as [a Ea]. specialize (Ha a Ea). pose proof (allow_le c cS s h a OK TI Hh Ea) as AL.
    unfold WInv, free_by in *. cbn [clock free_at wq broken]. rewrite Hh in ID. rewrite Hh', Ew. split; [|split; [|split; [|split]]]; auto.
    + eapply dl_mono; [|exact ID]. lia.
    + intros h0 E0. discriminate.
    + intros w Hw. specialize (IR w Hw). lia.
  - (* cancel *) wdm H; [|discriminate]. injection H as <- <-. apply step_cancel in Heqo. fold (was_holder s id).
    destruct Heqo as [[Wh [Hh' Ew]]|[Wh [Hh' Ew]]]; rewrite Wh.
    + unfold was_holder in Wh. destruct (holder s) as [h|] eqn:Hh; [|discriminate].
      unfold WInv, free_by in *. cbn [clock free_at wq broken]. rewrite Hh', Ew. split; [|split; [|split; [|split]]]; auto.
      * eapply dl_mono; [|exact ID]. rewrite Hh. exact (IC h eq_refl).
      * intros h0 E0. discriminate.
    + unfold WInv in *. cbn [clock free_at wq broken].
      assert (EF : free_by c cS s0 (mkG (clock g) (free_at g) (filter (fun w => negb (Nat.eqb (c_id (we_call w)) id)) (wq g)) (broken g)) = free_by c cS s g)
        by (unfold free_by; rewrite Hh'; reflexivity).
      rewrite EF. split; [|split; [|split; [|split]]]; auto.
      * rewrite map_filter_call, IA, Ew. reflexivity.
      * eapply dl_filter; [exact CJ| |apply Z.le_refl|exact ID]. eapply waiters_pos; eauto.
      * intros h Hh. rewrite Hh' in Hh. exact (IC h Hh).
      * intros w Hw. apply filter_In in Hw. apply IR. tauto.
Qed.

Lemma winv_init c cS : WInv c cS init ginit.
Proof. unfold WInv, init, ginit, free_by. cbn. repeat split; auto; try constructor; intros; try discriminate; contradiction. Qed.

Lemma winv_run c cS : cfg_ok c -> 0 <= cS -> forall ws s g, wrun c cS (init, ginit) ws = Some (s, g) -> WInv c cS s g /\ Tim c s.
Proof.
  intros OK HS ws. induction ws as [|w ws IH] using rev_ind; intros s g R.
  - cbn in R. injection R as <- <-. split; [apply winv_init|]. apply (tim_run c OK [] init eq_refl).
  - rewrite wrun_snoc in R. destruct (wrun c cS (init, ginit) ws) as [[s0 g0]|] eqn:R0; [|discriminate].
    destruct (IH s0 g0 eq_refl) as [W T]. split; [eapply winv_step; eauto|].
    pose proof (wstep_inner _ _ _ _ _ _ _ R) as E. destruct w as [l|t]; [eapply tim_step; eauto|subst; exact T].
Qed.

(* ---------- the theorems ---------- *)
(* every grant keeps the promise made at arrival *)
Theorem grant_keeps_promise c cS ws i t x : cfg_ok c -> 0 <= cS ->
  wrun c cS (init, ginit) (ws ++ [WL (LAcquire i t)]) = Some x ->
  exists s g w r, wrun c cS (init, ginit) ws = Some (s, g) /\ wq g = w :: r /\ c_id (we_call w) = i /\ we_arr w <= t <= we_prom w.
Proof.
  intros OK HS R. rewrite wrun_snoc in R. destruct (wrun c cS (init, ginit) ws) as [[s g]|] eqn:R0; [|discriminate].
  destruct (winv_run c cS OK HS ws s g R0) as [[IA [ID [IC [IR IB]]]] TI].
  cbn [wstep] in R. destruct (wq g) as [|w r] eqn:Q; [discriminate|]. wdm R; [|discriminate]. wdm R; [|discriminate].
  apply andb_prop in Heqb. destruct Heqb as [Hm Hp]. apply Z.leb_le in Hm. apply Z.leb_le in Hp.
  apply step_acquire in Heqo. destruct Heqo as [Hn [k [rest [h' [Ew [Ei _]]]]]].
  cbn [map] in IA. rewrite Ew in IA. injection IA as Ek _.
  unfold free_by in ID. rewrite Hn in ID. cbn [deadlines map] in ID. inversion ID as [|a b l l' Hxy Hrest]; subst.
  assert (we_arr w <= clock g) by (apply IR; left; reflexivity).
  exists s, g, w, r. repeat split; auto; lia.
Qed.

Theorem no_broken_promise c cS ws s g : cfg_ok c -> 0 <= cS -> wrun c cS (init, ginit) ws = Some (s, g) -> broken g = 0.
Proof. intros OK HS R. destruct (winv_run c cS OK HS ws s g R) as [[_ [_ [_ [_ IB]]]] _]. exact IB. Qed.

(* what is promised: one slot after everybody ahead has used its whole bound *)
Theorem promise_value c cS ws k s' g' : wrun c cS (init, ginit) (ws ++ [WL (LCall k)]) = Some (s', g') ->
  exists s g, wrun c cS (init, ginit) ws = Some (s, g) /\
    wq g' = wq g ++ [mkW k (clock g) (Z.max (endb c cS (free_by c cS s g) (wq g)) (clock g) + cJ c)].
Proof.
  intros R. rewrite wrun_snoc in R. destruct (wrun c cS (init, ginit) ws) as [[s g]|] eqn:R0; [|discriminate].
  cbn [wstep] in R. wdm R; [|discriminate]. injection R as <- <-. exists s, g. split; [reflexivity|]. cbn [wq].
  rewrite dl_snoc, last_last. reflexivity.
Qed.

Theorem promise_bounded c cS ws k s' g' : cfg_ok c -> 0 <= cS -> wrun c cS (init, ginit) (ws ++ [WL (LCall k)]) = Some (s', g') ->
  exists s g e, wrun c cS (init, ginit) ws = Some (s, g) /\ wq g' = wq g ++ [e] /\ we_call e = k /\ we_arr e = clock g /\
    we_prom e <= Z.max (free_by c cS s g) (clock g) + load c cS (wq g) + cJ c.
Proof.
  intros OK HS R. destruct (promise_value c cS ws k s' g' R) as [s [g [R0 E]]].
  destruct (winv_run c cS OK HS ws s g R0) as [[IA [ID [IC [IR IB]]]] TI]. pose proof OK as [CT [CP [CJ CE]]].
  eexists s, g, _. split; [exact R0|]. split; [exact E|]. cbn [we_call we_arr we_prom]. repeat split.
  pose proof (endb_upper c cS CJ (wq g) (free_by c cS s g) (clock g)) as U0.
  assert (Hq : forall w, In w (wq g) -> 0 <= hold_bound c cS (we_call w) /\ we_arr w <= clock g).
  { intros w Hw. split; [eapply waiters_pos; eauto|exact (IR w Hw)]. }
  specialize (U0 Hq). pose proof (load_nonneg c cS CJ (wq g) (fun w Hw => proj1 (Hq w Hw))). lia.
Qed.

(* entries of the ghost queue are never rewritten: what is granted against is the promise made at arrival *)
Theorem entries_persist c cS s g w s' g' : wstep c cS (s, g) w = Some (s', g') ->
  forall e, In e (wq g') -> In e (wq g) \/ exists k, w = WL (LCall k) /\ we_call e = k /\ we_arr e = clock g.
Proof.
  intros H e He. destruct w as [l|t]; cbn [wstep] in H.
  - destruct l; cbn [time_of] in H; repeat (first [discriminate H | wdm H]); try discriminate H; injection H as <- <-; cbn [wq set_clock] in He; auto.
    all: try (apply in_app_or in He; destruct He as [He|[<-|[]]]; [auto|]; right; eexists; repeat split).
    + left. right. exact He.
    + destruct (match holder s with Some h => Nat.eqb (c_id (h_call h)) id | None => false end); [auto|]. apply filter_In in He. tauto.
  - wdm H; [|discriminate]. injection H as <- <-. auto.
Qed.

(* ---------- non-vacuity: the demo of RequestP with its clock readings; and what the timed layer refuses ---------- *)
Definition wdemo : list wlabel :=
  [WL (LGate true); WTick 0; WL (LCall B); WTick 0; WL (LCall A); WL (LAcquire 1 0); WL (LSend 1 0 true)] ++ map WL (lost 1 0) ++
  [WL (LSend 1 6100000 true); WL (LHit 1 6150000); WL (LRelease 1 6150000 true); WL (LAcquire 0 6150000); WL (LSend 0 6150000 true);
   WL (LHit 0 6200000); WL (LRelease 0 6200000 true)].
(* B is granted by 0.1 s and may hold the lock for 2 x U + J = 12.70001 s: A, which arrived at 0 behind it, is promised the lock by 0.1 + 12.70001 + 0.1 s *)
Example wdemo_accepted :
  option_map (fun x => (List.length (finished (fst x)), clock (snd x), free_at (snd x), broken (snd x))) (wrun CFG 0 (init, ginit) wdemo)
  = Some (2%nat, 6200000, 6200000, 0) /\
  option_map (fun x => map we_prom (wq (snd x))) (wrun CFG 0 (init, ginit) (firstn 5 wdemo)) = Some [100000; 12900010].
Proof. split; vm_compute; reflexivity. Qed.
Example wrejects :
  (* a grant that comes later than one slot after the lock was free and the caller there *)
  wrun CFG 0 (init, ginit) [WTick 0; WL (LCall A); WL (LAcquire 0 100001)] = None /\
  (* the clock running backwards *)
  wrun CFG 0 (init, ginit) [WTick 5; WL (LCall A); WL (LAcquire 0 4)] = None /\
  (* a holder that goes silent: the clock shows more than its next allowed moment *)
  wrun CFG 0 (init, ginit) [WTick 0; WL (LCall A); WL (LAcquire 0 0); WL (LSend 0 0 true); WTick 100001] = None /\
  (* a structure download that keeps the lock longer than the ceiling *)
  wrun CFG 50000 (init, ginit) [WTick 0; WL (LCall (mkc 0 Struct 1 false false)); WL (LAcquire 0 0); WL (LSend 0 0 true); WTick 50001] = None.
Proof. split; [|split; [|split]]; vm_compute; reflexivity. Qed.
