(* C09: closure of the fault-reachable set, the pump never dies, every fault-reachable state heals. *)
From Coq Require Import List Bool ZArith Lia.
Require Import GV.Gen.LifecycleRules GV.Model.Lifecycle GV.Proofs.LifecycleP GV.Model.Heal.
Require GV.Model.Request.
Import ListNotations.

Local Transparent step handle reset.
Definition closed9b : bool :=
  forallb (fun s => forallb (fun l => match stepS s l with Some s' => mem s' reach9 | None => true end) (Ext SPA_MAN_ENTER :: fault_labels)) reach9.
Lemma reach9_closed : closed9b = true.
Proof. vm_compute. reflexivity. Qed.
Lemma entered_in_reach9 : mem (entered true) reach9 = true.
Proof. vm_compute. reflexivity. Qed.

Definition all_heal_b (k : costs) (bound : Z) : bool :=
  forallb (fun s => match heal k FUELH s 0 with Some t => (t <=? bound)%Z | None => false end) reach9.
Lemma all_heal_idle : all_heal_b idle_costs 420 = true.
Proof. vm_compute. reflexivity. Qed.
Definition alive (s : mst) : bool := negb (pc_eqb (ppc s) PDead).
Definition pump_alive_b : bool := forallb alive reach.
Lemma pump_alive_all : pump_alive_b = true.
Proof. vm_compute. reflexivity. Qed.
Definition reported (s : mst) : bool :=
  negb (sstate_eqb (st s) CONNECTED) ||
  match stepS s (Ext RUNNING_PING_NO_RESPONSE) with Some s' => negb (sstate_eqb (st s') CONNECTED) | None => false end.
Definition unreachable_reported_b : bool := forallb reported reach.
Lemma unreachable_reported_all : unreachable_reported_b = true.
Proof. vm_compute. reflexivity. Qed.
Global Opaque step handle reset.

Lemma canon_fault l : fault_label l = true -> In (canon_label l) (Ext SPA_MAN_ENTER :: fault_labels).
Proof.
  intros F. pose proof (canon_in l) as H. destruct H as [H|H]; [left; exact H|]. right. unfold fault_labels. apply filter_In. split; [exact H|].
  destruct l as [|f r|o|e| | |]; cbn [canon_label] in *; try reflexivity.
  - destruct r; reflexivity.
  - destruct o; try reflexivity. discriminate.
  - destruct (existsb (event_eqb e) ext_events); reflexivity.
Qed.

Theorem reach9_complete ls : forall s', Forall (fun l => fault_label l = true) ls -> runS (entered true) ls = Some s' -> In s' reach9.
Proof.
  assert (G : forall ks s, In s reach9 -> Forall (fun l => fault_label l = true) ks -> forall s1, runS s ks = Some s1 -> In s1 reach9).
  { induction ks as [|l r IH]; intros s Hs F s1 H; cbn [runS] in H; [inversion H; subst; exact Hs|].
    inversion F as [|? ? Fl Fr]; subst.
    destruct (stepS s l) as [s2|] eqn:E; [|discriminate]. apply (IH s2); auto.
    pose proof reach9_closed as C. unfold closed9b in C. rewrite forallb_forall in C. specialize (C s Hs). rewrite forallb_forall in C.
    specialize (C (canon_label l) (canon_fault l Fl)). rewrite <- step_canon, E in C.
    unfold mem in C. apply existsb_exists in C. destruct C as [x [Hx Ex]]. apply mst_eqb_eq in Ex. subst. exact Hx. }
  intros s' F H. apply (G ls (entered true)); auto.
  pose proof entered_in_reach9 as I. unfold mem in I. apply existsb_exists in I. destruct I as [x [Hx Ex]]. apply mst_eqb_eq in Ex. subst. exact Hx.
Qed.

Theorem heals_after_any_faults ls s : Forall (fun l => fault_label l = true) ls -> runS (entered true) ls = Some s ->
  exists t, heal idle_costs FUELH s 0 = Some t /\ (t <= 420)%Z.
Proof.
  intros F R. pose proof (reach9_complete ls s F R) as Hin. pose proof all_heal_idle as A. unfold all_heal_b in A. rewrite forallb_forall in A.
  specialize (A s Hin). destruct (heal idle_costs FUELH s 0) as [t|]; [|discriminate]. exists t. split; [reflexivity|]. apply Z.leb_le. exact A.
Qed.

Theorem pump_never_dies c ls s : runS (entered c) ls = Some s -> ppc s <> PDead.
Proof.
  intros R. pose proof (inv_all alive pump_alive_all c ls s R) as I. unfold alive in I. intros E. rewrite E in I. discriminate.
Qed.

Theorem unreachable_is_reported c ls s : runS (entered c) ls = Some s -> st s = CONNECTED ->
  exists s', stepS s (Ext RUNNING_PING_NO_RESPONSE) = Some s' /\ st s' <> CONNECTED.
Proof.
  intros R H. pose proof (inv_all reported unreachable_reported_all c ls s R) as I. unfold reported in I. rewrite H in I. cbn [sstate_eqb negb orb] in I.
  destruct (stepS s (Ext RUNNING_PING_NO_RESPONSE)) as [s'|]; [|discriminate]. exists s'. split; [reflexivity|]. intros E. rewrite E in I. discriminate.
Qed.

(* the heal schedule's cost of one request exchange covers C06's proved bound for a simple call with the idle configuration's ten
   attempts (timeout 4 s, pause 2 s, scheduling slot 0.1 s; microseconds), and of a ping (one attempt) after the ping period *)
Lemma request_cost_covers_c06_bound :
  (Request.bound (Request.Build_cfg 4000000 2000000 100000 5) (Request.mkc 0 Request.Simple 10 false false) <= k_request idle_costs * 1000000)%Z /\
  (60000000 + Request.bound (Request.Build_cfg 4000000 2000000 100000 5) (Request.mkc 0 Request.Simple 1 false false) <= k_ping idle_costs * 1000000)%Z.
Proof. vm_compute. split; discriminate. Qed.
