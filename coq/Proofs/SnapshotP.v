(* C19: writer o parser = identity for the snapshot log format. *)
From Coq Require Import ZArith List Bool Lia.
Require Import GV.Lib.Bytes GV.Lib.Digits GV.Model.Wire GV.Model.Snapshot GV.Proofs.WireP.
Import ListNotations.
Open Scope Z_scope.

(* ---------- split / join ---------- *)
Lemma split_on_none sep x : Forall (fun c => c <> sep) x -> split_on sep x = [x].
Proof. induction x as [|c r IH]; intros H; [reflexivity|]. inversion H; subst. cbn [split_on]. rewrite (IH H3).
  replace (c =? sep) with false by (symmetry; apply Z.eqb_neq; auto). reflexivity. Qed.
Lemma split_on_cons_nonempty sep s : split_on sep s <> [].
Proof. induction s as [|c r IH]; cbn [split_on]; [discriminate|]. destruct (split_on sep r); [contradiction|]. destruct (c =? sep); discriminate. Qed.
Lemma split_on_app sep x r : Forall (fun c => c <> sep) x -> split_on sep (x ++ sep :: r) = x :: split_on sep r.
Proof. induction x as [|c x IH]; intros H.
  - cbn [app split_on]. rewrite Z.eqb_refl. destruct (split_on sep r) eqn:E; [exfalso; revert E; apply split_on_cons_nonempty|reflexivity].
  - inversion H; subst. cbn [app split_on]. rewrite (IH H3).
    replace (c =? sep) with false by (symmetry; apply Z.eqb_neq; auto). reflexivity. Qed.

Definition item_ok (i : list Z) : Prop := Forall (fun c => c <> 44) i.
Lemma split_join items : items <> [] -> Forall item_ok items ->
  split_on 44 (join_items items) = hd [] items :: map (fun i => 32 :: i) (tl items).
Proof.
  induction items as [|x r IH]; intros Hne HF; [contradiction|]. inversion HF; subst.
  destruct r as [|y r'].
  - cbn. apply split_on_none. assumption.
  - change (join_items (x :: y :: r')) with (x ++ [44; 32] ++ join_items (y :: r')).
    change (x ++ [44; 32] ++ join_items (y :: r')) with (x ++ 44 :: (32 :: join_items (y :: r'))).
    rewrite split_on_app by assumption. cbn [hd tl map]. f_equal.
    specialize (IH ltac:(discriminate) H2). cbn [hd tl] in IH.
    (* 32 :: join ... splits like join ... with 32 consed on the first piece *)
    assert (G : forall s h t, split_on 44 s = h :: t -> split_on 44 (32 :: s) = (32 :: h) :: t).
    { intros s h t E. cbn [split_on]. rewrite E. reflexivity. }
    rewrite (G _ _ _ IH). reflexivity.
Qed.

(* ---------- one item ---------- *)
Lemma hex_item_shape b : hex_item b = 39 :: 48 :: 120 :: hex_text b ++ [39].
Proof. reflexivity. Qed.

Lemma strip_l_nonspace s c : c <> 32 -> strip_l (c :: s) = c :: s.
Proof. intros H. cbn. destruct c; try reflexivity. destruct p; try reflexivity. repeat (destruct p; try reflexivity). contradiction. Qed.

Lemma strip_item b : strip (hex_item b) = hex_item b /\ strip (32 :: hex_item b) = hex_item b.
Proof.
  assert (A : strip_l (hex_item b) = hex_item b) by (rewrite hex_item_shape; apply strip_l_nonspace; discriminate).
  assert (B : strip_l (rev (hex_item b)) = rev (hex_item b)).
  { rewrite hex_item_shape. change (39 :: 48 :: 120 :: hex_text b ++ [39]) with ([39; 48; 120] ++ hex_text b ++ [39]).
    rewrite !rev_app_distr. cbn [rev app]. apply strip_l_nonspace. discriminate. }
  unfold strip. split.
  - rewrite A, B. apply rev_involutive.
  - change (strip_l (32 :: hex_item b)) with (strip_l (hex_item b)). rewrite A, B. apply rev_involutive.
Qed.

Lemma inner_wrap (q q' : Z) s : inner (q :: s ++ [q']) = s.
Proof. unfold inner. cbn [skipn].
  replace (List.length (q :: s ++ [q']) - 2)%nat with (List.length s) by (cbn [List.length]; rewrite app_length; cbn [List.length]; lia).
  rewrite firstn_app, Nat.sub_diag, firstn_all. cbn [firstn]. apply app_nil_r. Qed.
Lemma inner_item b : inner (hex_item b) = 48 :: 120 :: hex_text b.
Proof. rewrite hex_item_shape. apply (inner_wrap 39 39 (48 :: 120 :: hex_text b)). Qed.

Lemma parse_item b : 0 <= b < 256 -> parse_int16 (inner (strip (hex_item b))) = Some b /\ parse_int16 (inner (strip (32 :: hex_item b))) = Some b.
Proof. intros H. destruct (strip_item b) as [A B]. rewrite A, B, inner_item. cbn [parse_int16].
  split; apply hex_roundtrip; lia. Qed.

Lemma hex_item_no_comma b : item_ok (hex_item b).
Proof. rewrite hex_item_shape. unfold item_ok. repeat (constructor; [discriminate|]).
  apply Forall_app. split; [|constructor; [discriminate|constructor]].
  eapply Forall_impl; [|apply hex_text_chars]. intros c Hc. cbn beta in Hc. lia. Qed.

Lemma hex_item_class b : forallb in_class (hex_item b) = true.
Proof. rewrite hex_item_shape. cbn [forallb]. rewrite forallb_app. cbn [forallb].
  assert (forallb in_class (hex_text b) = true).
  { apply forallb_forall. intros c Hc. pose proof (hex_text_chars b) as F. rewrite Forall_forall in F. specialize (F c Hc).
    unfold in_class, is_digit. destruct F as [F|F].
    - replace ((48 <=? c) && (c <=? 57)) with true by (symmetry; apply andb_true_intro; split; apply Z.leb_le; lia). reflexivity.
    - replace ((97 <=? c) && (c <=? 102)) with true by (symmetry; apply andb_true_intro; split; apply Z.leb_le; lia).
      now rewrite !orb_true_r. }
  rewrite H. reflexivity. Qed.

(* ---------- the whole list ---------- *)
Lemma all_some_map_first (blk : list Z) x : Forall (fun b => 0 <= b < 256) (x :: blk) ->
  all_some (map (fun p => parse_int16 (inner (strip p))) (hex_item x :: map (fun i => 32 :: i) (map hex_item blk))) = Some (x :: blk).
Proof.
  intros HF. inversion HF; subst. cbn [map all_some]. destruct (parse_item x H1) as [A _]. rewrite A.
  assert (G : all_some (map (fun p => parse_int16 (inner (strip p))) (map (fun i => 32 :: i) (map hex_item blk))) = Some blk).
  { clear - H2. induction blk as [|y r IH]; [reflexivity|]. inversion H2; subst. cbn [map all_some].
    destruct (parse_item y H1) as [_ B]. rewrite B, (IH H3). reflexivity. }
  rewrite G. reflexivity.
Qed.

Lemma join_class items : Forall (fun i => forallb in_class i = true) items -> forallb in_class (join_items items) = true.
Proof. induction items as [|x r IH]; intros H; [reflexivity|]. inversion H; subst. destruct r as [|y r']; [assumption|].
  change (join_items (x :: y :: r')) with (x ++ [44; 32] ++ join_items (y :: r')). rewrite !forallb_app, H2, (IH H3). reflexivity. Qed.

Lemma take_while_all f s r c : forallb f s = true -> f c = false -> take_while f (s ++ c :: r) = s.
Proof. induction s as [|x s IH]; intros H Hc; cbn [app take_while forallb] in *; [now rewrite Hc|].
  apply andb_prop in H. destruct H as [A B]. rewrite A, (IH B Hc). reflexivity. Qed.

Theorem data_line_roundtrip prefix blk :
  blk <> [] -> Forall (fun b => 0 <= b < 256) blk -> Forall (fun c => c <> 91) prefix ->
  parse_data_line (prefix ++ render_block blk) = Some blk.
Proof.
  intros Hne HF Hp. unfold parse_data_line, render_block.
  set (content := join_items (map hex_item blk)).
  assert (Hcls : forallb in_class content = true).
  { apply join_class. apply Forall_map. apply Forall_forall. intros b _. apply hex_item_class. }
  cbn [find_data]. change ([91] ++ content ++ [93]) with ([91] ++ (content ++ [93])).
  rewrite (find_sub_skip 91 [] prefix (content ++ [93]) Hp).
  rewrite (take_while_all in_class content [] 93 Hcls eq_refl).
  rewrite skipn_app, skipn_all, Nat.sub_diag. cbn [skipn app].
  unfold parse_items, content. destruct blk as [|x r]; [contradiction|].
  rewrite split_join; [|discriminate|apply Forall_map; apply Forall_forall; intros b _; apply hex_item_no_comma].
  change (map hex_item (x :: r)) with (hex_item x :: map hex_item r). cbn [hd tl]. rewrite (all_some_map_first r x HF).
  replace (forallb is_byte (x :: r)) with true; [reflexivity|].
  symmetry. apply forallb_forall. intros b Hb. rewrite Forall_forall in HF. specialize (HF b Hb). unfold is_byte.
  apply andb_true_intro. split; [apply Z.leb_le|apply Z.ltb_lt]; lia.
Qed.

(* ---------- version lines (message level) ---------- *)
Lemma take_digits n r : (match r with c :: _ => is_digit c = false | [] => True end) ->
  take_while is_digit (dec_text n ++ r) = dec_text n.
Proof.
  intros Hr. assert (D : forallb is_digit (dec_text n) = true).
  { apply forallb_forall. intros c Hc. pose proof (dec_text_chars n) as F. rewrite Forall_forall in F. specialize (F c Hc).
    unfold is_digit. apply andb_true_intro. split; apply Z.leb_le; lia. }
  destruct r as [|c r']; [|apply take_while_all; assumption].
  rewrite app_nil_r. clear Hr. induction (dec_text n) as [|x s IH]; [reflexivity|]. cbn [forallb take_while] in *.
  apply andb_prop in D. destruct D as [A B]. rewrite A, (IH B). reflexivity.
Qed.

Lemma digits_then_ok n r : 0 <= n < 10 ^ 24 -> (match r with c :: _ => is_digit c = false | [] => True end) ->
  digits_then (dec_text n ++ r) = Some (n, r).
Proof. intros Hn Hr. unfold digits_then. rewrite take_digits by exact Hr. rewrite dec_roundtrip by exact Hn.
  rewrite skipn_app, skipn_all, Nat.sub_diag. reflexivity. Qed.

Theorem ver3_roundtrip lit a b c : 0 <= a < 10 ^ 24 -> 0 <= b < 10 ^ 24 -> 0 <= c < 10 ^ 24 ->
  parse_ver3 lit (render_ver3 lit a b c) = Some (a, b, c).
Proof.
  intros Ha Hb Hc. unfold parse_ver3, render_ver3. rewrite find_sub_here. unfold parse_ver3_at.
  rewrite (digits_then_ok a (L_V ++ dec_text b ++ [46] ++ dec_text c) Ha eq_refl).
  rewrite starts_with_app. change (skipn 2 (L_V ++ dec_text b ++ [46] ++ dec_text c)) with (dec_text b ++ [46] ++ dec_text c).
  rewrite (digits_then_ok b ([46] ++ dec_text c) Hb eq_refl). cbn [app].
  rewrite <- (app_nil_r (dec_text c)). rewrite (digits_then_ok c [] Hc I). reflexivity.
Qed.

Theorem num_roundtrip lit n : 0 <= n < 10 ^ 24 -> parse_num lit (lit ++ dec_text n) = Some n.
Proof. intros H. unfold parse_num. rewrite find_sub_here. rewrite <- (app_nil_r (dec_text n)).
  rewrite (digits_then_ok n [] H I). reflexivity. Qed.

(* ---------- traffic log ---------- *)
Lemma seg_step_statv st i n d e : encode (Statv i n d) = Some e ->
  seg_step st e = (fst st ++ [d], if n =? 0 then concat (fst st ++ [d]) else snd st).
Proof. intros H. unfold seg_step. rewrite (roundtrip_statv i n d e H). reflexivity. Qed.

Theorem reassemble_chain : forall segs es acc0 b0,
  Forall2 (fun s e => encode (Statv (fst (fst s)) (snd (fst s)) (snd s)) = Some e) segs es ->
  segs <> [] ->
  snd (fst (last segs (0, 0, []))) = 0 ->
  snd (fold_left seg_step es (acc0, b0)) = concat (acc0 ++ map snd segs).
Proof.
  induction segs as [|[[i n] d] r IH]; intros es acc0 b0 H2 Hne Hl; [contradiction|].
  inversion H2 as [|? e ? es' He H2']; subst. cbn [fst snd] in He. cbn [fold_left]. rewrite (seg_step_statv _ i n d e He). cbn [fst snd].
  destruct r as [|s2 r'].
  - inversion H2'; subst. cbn [fold_left snd]. cbn in Hl. rewrite Hl. cbn. reflexivity.
  - rewrite (IH es' (acc0 ++ [d]) _ H2' ltac:(discriminate) Hl). cbn [map]. rewrite <- app_assoc. reflexivity.
Qed.
