(* C06: facts about EVERY label list the request-engine acceptor accepts (Model/Request.v) - any number of callers, any
   arrival times, any loss / delay pattern (choice of LHit / LTimeout), any wake-up order, cancellations at any point. *)
From Coq Require Import ZArith List Bool Lia Permutation Arith.
Require Import GV.Model.Request.
Import ListNotations.
Open Scope Z_scope.

Lemma run_app c : forall a s b, run c s (a ++ b) = match run c s a with Some s' => run c s' b | None => None end.
Proof. induction a as [|l a IH]; intros s b; cbn [run app]; [reflexivity|]. destruct (step c s l); [apply IH|reflexivity]. Qed.
Lemma run_snoc c s ls l : run c s (ls ++ [l]) = match run c s ls with Some s' => step c s' l | None => None end.
Proof. rewrite run_app. destruct (run c s ls) as [s'|]; [|reflexivity]. cbn [run]. destruct (step c s' l); reflexivity. Qed.

(* induction principle over accepted runs *)
Lemma run_ind c (P : list label -> st -> Prop) :
  P [] init ->
  (forall ls s l s', run c init ls = Some s -> P ls s -> step c s l = Some s' -> P (ls ++ [l]) s') ->
  forall ls s, run c init ls = Some s -> P ls s.
Proof.
  intros H0 Hs ls. induction ls as [|l ls IH] using rev_ind; intros s R.
  - cbn in R. injection R as <-. exact H0.
  - rewrite run_snoc in R. destruct (run c init ls) as [s0|] eqn:R0; [|discriminate]. exact (Hs ls s0 l s R0 (IH s0 eq_refl) R).
Qed.

Definition holder_id (s : st) : list nat := match holder s with Some h => [c_id (h_call h)] | None => [] end.
Definition fin_ids (s : st) : list nat := map (fun f => c_id (f_call f)) (finished s).

Lemma mem_id_In i l : mem_id i l = true <-> In i l.
Proof. unfold mem_id. rewrite existsb_exists. split; [intros [y [Hy E]]; apply Nat.eqb_eq in E; now subst|intros H; exists i; split; [auto|apply Nat.eqb_refl]]. Qed.
Lemma mem_id_false i l : mem_id i l = false <-> ~ In i l.
Proof. rewrite <- mem_id_In. destruct (mem_id i l); split; intros; try congruence; try tauto. Qed.

(* ---------- inversion of one step ---------- *)
Ltac dm H := match type of H with (match ?x with _ => _ end) = _ => destruct x eqn:? end.
Ltac inv_step H :=
  unfold step, holder_step, label_id, set_holder in H; cbn [label_id] in H;
  repeat (first [discriminate H | dm H]); try discriminate H;
  try (injection H as <-).

Lemma andb4 a b c d : a && b && c && d = true -> a = true /\ b = true /\ c = true /\ d = true.
Proof. intros H. repeat (apply andb_prop in H; destruct H as [H ?]). auto. Qed.

(* ---------- L0: the gate the acceptor tracks is the last one observed ---------- *)
Lemma gate_of_snoc ls l : gate_of (ls ++ [l]) = match l with LGate b => b | _ => gate_of ls end.
Proof. unfold gate_of. rewrite fold_left_app. reflexivity. Qed.

Lemma gate_tracks c : forall ls s, run c init ls = Some s -> gate s = gate_of ls.
Proof.
  apply run_ind; [reflexivity|]. intros ls s l s' _ IH St. rewrite gate_of_snoc.
  destruct l; inv_step St; cbn; auto.
Qed.

(* ---------- L1: every caller is in exactly one place: finished, cancelled, holding, or waiting ---------- *)
Definition Str (s : st) : Prop :=
  NoDup (ids (called s)) /\
  Permutation (ids (called s)) (fin_ids s ++ cancelled s ++ holder_id s ++ ids (waiters s)) /\
  (forall h, holder s = Some h -> In (h_call h) (called s)) /\
  (forall k, In k (waiters s) -> In k (called s)) /\
  (forall f, In f (finished s) -> In (f_call f) (called s)).

Lemma ids_filter i (l : list call) :
  ids (filter (fun k => negb (Nat.eqb (c_id k) i)) l) = filter (fun j => negb (Nat.eqb j i)) (ids l).
Proof. induction l as [|k r IH]; [reflexivity|]. cbn. destruct (Nat.eqb (c_id k) i); cbn; [exact IH|]. unfold ids in *. now rewrite IH. Qed.

Lemma filter_neq_notin i (l : list nat) : ~ In i l -> filter (fun j => negb (Nat.eqb j i)) l = l.
Proof. induction l as [|x r IH]; intros H; [reflexivity|]. cbn. destruct (Nat.eqb x i) eqn:E.
  - apply Nat.eqb_eq in E. subst. exfalso. apply H. left. reflexivity.
  - cbn. f_equal. apply IH. intros C. apply H. right. exact C. Qed.

Lemma perm_extract i (l : list nat) : NoDup l -> In i l -> Permutation l (i :: filter (fun j => negb (Nat.eqb j i)) l).
Proof.
  induction l as [|x r IH]; intros ND Hin; [contradiction|]. inversion ND as [|? ? Hx Hr]; subst. cbn. destruct (Nat.eqb x i) eqn:E.
  - apply Nat.eqb_eq in E. subst. cbn. rewrite filter_neq_notin by exact Hx. reflexivity.
  - cbn. destruct Hin as [->|Hin]; [rewrite Nat.eqb_refl in E; discriminate|]. rewrite perm_swap. constructor. apply IH; assumption. Qed.

Lemma nodup_snoc_nat (x : nat) l : NoDup l -> ~ In x l -> NoDup (l ++ [x]).
Proof. intros H Hn. apply NoDup_rev in H. rewrite <- (rev_involutive (l ++ [x])). apply NoDup_rev. rewrite rev_app_distr. cbn. constructor; [rewrite <- in_rev; exact Hn|exact H]. Qed.

Lemma NoDup_app_remove_l {A} (a b : list A) : NoDup (a ++ b) -> NoDup b.
Proof. induction a as [|x r IH]; cbn; intros H; [exact H|]. inversion H; subst. auto. Qed.

Lemma ids_app a b : ids (a ++ b) = ids a ++ ids b. Proof. apply map_app. Qed.

Lemma str_nodup_parts s : Str s -> NoDup (fin_ids s ++ cancelled s ++ holder_id s ++ ids (waiters s)).
Proof. intros [ND [PM _]]. eapply Permutation_NoDup; eauto. Qed.

Lemma str_init : Str init.
Proof. unfold Str, init; cbn. repeat split; try constructor; intros; try discriminate; contradiction. Qed.

Lemma str_step c s l s' : Str s -> step c s l = Some s' -> Str s'.
Proof.
  intros S St. pose proof (str_nodup_parts s S) as NDP. destruct S as [ND [PM [HH [HW HF]]]].
  destruct l.
  - (* gate *) inv_step St. unfold Str, fin_ids, holder_id; cbn. auto.
  - (* call *) inv_step St. apply andb_prop in Heqb. destruct Heqb as [Hb _]. apply andb_prop in Hb. destruct Hb as [Hb _].
    apply negb_true_iff in Hb. apply mem_id_false in Hb.
    unfold Str, fin_ids, holder_id in *; cbn [called waiters holder finished cancelled]. rewrite !ids_app. cbn [ids map].
    repeat split.
    + apply nodup_snoc_nat; assumption.
    + rewrite PM. rewrite !app_assoc. reflexivity.
    + intros h Hh. apply in_or_app. left. auto.
    + intros k Hk. apply in_app_or in Hk. apply in_or_app. destruct Hk as [Hk|[<-|[]]]; [left; auto|right; left; reflexivity].
    + intros f Hf. apply in_or_app. left. auto.
  - (* acquire *) inv_step St. apply Nat.eqb_eq in Heqb. subst id.
    unfold Str, fin_ids, holder_id in *; cbn [called waiters holder finished cancelled h_call]. rewrite ?Heqo, ?Heql in *. cbn [ids map app] in *.
    repeat split; auto.
    + intros h Hh. injection Hh as <-. cbn. apply HW. left. reflexivity.
    + intros k Hk. apply HW. right. exact Hk.
  - (* send *) inv_step St. unfold Str, fin_ids, holder_id in *; cbn [called waiters holder finished cancelled h_call upd]. rewrite ?Heqo in *.
    repeat split; auto. intros h0 Hh. injection Hh as <-. cbn. apply HH. reflexivity.
  - (* miss *) inv_step St; unfold Str, fin_ids, holder_id in *; cbn [called waiters holder finished cancelled h_call upd]; rewrite ?Heqo in *;
    (repeat split; auto; intros h0 Hh; injection Hh as <-; cbn; apply HH; reflexivity).
  - (* hit *) inv_step St; unfold Str, fin_ids, holder_id in *; cbn [called waiters holder finished cancelled h_call upd]; rewrite ?Heqo in *;
    (repeat split; auto; intros h0 Hh; injection Hh as <-; cbn; apply HH; reflexivity).
  - (* timeout *) inv_step St; unfold Str, fin_ids, holder_id in *; cbn [called waiters holder finished cancelled h_call upd]; rewrite ?Heqo in *;
    (repeat split; auto; intros h0 Hh; injection Hh as <-; cbn; apply HH; reflexivity).
  - (* pause done *) inv_step St; unfold Str, fin_ids, holder_id in *; cbn [called waiters holder finished cancelled h_call upd]; rewrite ?Heqo in *;
    (repeat split; auto; intros h0 Hh; injection Hh as <-; cbn; apply HH; reflexivity).
  - (* release *) inv_step St; unfold Str, fin_ids, holder_id in *; cbn [called waiters holder finished cancelled h_call upd]; rewrite ?Heqo in *;
    rewrite map_app; cbn [map f_call app];
    (repeat split; auto;
     [ rewrite PM; rewrite <- app_assoc; apply Permutation_app_head; cbn [app]; apply (Permutation_app_swap_app (cancelled s) [c_id (h_call h)])
     | intros h0 Hh; discriminate
     | intros f Hf; apply in_app_or in Hf; destruct Hf as [Hf|[<-|[]]]; [auto|cbn; apply HH; reflexivity] ]).
  - (* cancel *) unfold step in St. destruct (holder s) as [h|] eqn:Hh.
    + destruct (Nat.eqb (c_id (h_call h)) id) eqn:E.
      * injection St as <-. apply Nat.eqb_eq in E. subst id. unfold Str, fin_ids, holder_id in *; cbn [called waiters holder finished cancelled]. rewrite ?Hh in *.
        repeat split; auto; [rewrite PM; cbn [app]; rewrite <- !app_assoc; reflexivity|intros h0 C; discriminate].
      * destruct (mem_id id (ids (waiters s))) eqn:M; [|discriminate]. injection St as <-. apply mem_id_In in M.
        unfold Str, fin_ids, holder_id in *; cbn [called waiters holder finished cancelled]. rewrite Hh in *. rewrite ids_filter.
        assert (NDW : NoDup (ids (waiters s))).
        { apply NoDup_app_remove_l in NDP. apply NoDup_app_remove_l in NDP. apply NoDup_app_remove_l in NDP. exact NDP. }
        repeat split; auto.
        -- rewrite PM. apply Permutation_app_head. rewrite <- app_assoc. apply Permutation_app_head. cbn [app].
           rewrite (perm_extract id (ids (waiters s)) NDW M) at 1. apply perm_swap.
        -- intros k Hk. apply filter_In in Hk. apply HW. tauto.
    + destruct (mem_id id (ids (waiters s))) eqn:M; [|discriminate]. injection St as <-. apply mem_id_In in M.
      unfold Str, fin_ids, holder_id in *; cbn [called waiters holder finished cancelled]. rewrite Hh in *. rewrite ids_filter.
      assert (NDW : NoDup (ids (waiters s))).
      { apply NoDup_app_remove_l in NDP. apply NoDup_app_remove_l in NDP. exact NDP. }
      repeat split; auto.
      -- rewrite PM. apply Permutation_app_head. rewrite <- app_assoc. apply Permutation_app_head. cbn [app].
         rewrite (perm_extract id (ids (waiters s)) NDW M) at 1. reflexivity.
      -- intros k Hk. apply filter_In in Hk. apply HW. tauto.
Qed.

Lemma str_run c : forall ls s, run c init ls = Some s -> Str s.
Proof. apply (run_ind c (fun _ s => Str s)); [exact str_init|]. intros ls s l s' _ IH St. eapply str_step; eauto. Qed.

(* ---------- L2: the trace's own count of lock holders (acquires minus releases / cancellations) ---------- *)
Lemma holders_of_snoc ls l : holders_of (ls ++ [l]) =
  match l with
  | LAcquire i _ => holders_of ls ++ [i]
  | LRelease i _ _ | LCancel i => filter (fun j => negb (Nat.eqb i j)) (holders_of ls)
  | _ => holders_of ls
  end.
Proof. unfold holders_of. rewrite fold_left_app. cbn. destruct l; reflexivity. Qed.

Lemma holder_not_waiting s h : Str s -> holder s = Some h -> ~ In (c_id (h_call h)) (ids (waiters s)).
Proof.
  intros S Hh. pose proof (str_nodup_parts s S) as ND. unfold holder_id in ND. rewrite Hh in ND.
  apply NoDup_app_remove_l in ND. apply NoDup_app_remove_l in ND. cbn in ND. inversion ND; subst. assumption.
Qed.

Theorem one_in_flight c : forall ls s, run c init ls = Some s -> holders_of ls = holder_id s.
Proof.
  apply run_ind; [reflexivity|]. intros ls s l s' R IH St. pose proof (str_run c ls s R) as S. rewrite holders_of_snoc, IH. unfold holder_id.
  destruct l; try (inv_step St; cbn [holder upd h_call]; rewrite ?Heqo; reflexivity).
  - (* acquire *) inv_step St. apply Nat.eqb_eq in Heqb. subst. cbn. reflexivity.
  - (* release *) inv_step St; cbn [holder]; apply Nat.eqb_eq in Heqb; subst; cbn; rewrite Nat.eqb_refl; reflexivity.
  - (* cancel *) unfold step in St. destruct (holder s) as [h|] eqn:Hh.
    + destruct (Nat.eqb (c_id (h_call h)) id) eqn:E.
      * injection St as <-. apply Nat.eqb_eq in E. subst. cbn. rewrite Nat.eqb_refl. reflexivity.
      * destruct (mem_id id (ids (waiters s))); [|discriminate]. injection St as <-. cbn [holder]. rewrite ?Hh. cbn.
        rewrite Nat.eqb_sym, E. reflexivity.
    + destruct (mem_id id (ids (waiters s))); [|discriminate]. injection St as <-. reflexivity.
Qed.

(* ---------- L3: attempts and deliveries, counted on the trace ---------- *)
Lemma sends_of_snoc i ls l : sends_of i (ls ++ [l]) =
  match l with LSend j _ _ => if Nat.eqb i j then sends_of i ls + 1 else sends_of i ls | _ => sends_of i ls end.
Proof. unfold sends_of. rewrite fold_left_app. cbn. destruct l; reflexivity. Qed.
Lemma hits_of_snoc i ls l : hits_of i (ls ++ [l]) =
  match l with LHit j _ => if Nat.eqb i j then hits_of i ls + 1 else hits_of i ls | _ => hits_of i ls end.
Proof. unfold hits_of. rewrite fold_left_app. cbn. destruct l; reflexivity. Qed.

Definition phase_ok (h : hold) : Prop :=
  match h_phase h with
  | Returning true | Waiting _ true => 0 < h_hits h
  | Returning false => c_retries (h_call h) <= h_sends h
  | _ => True
  end.

Definition Cnt (ls : list label) (s : st) : Prop :=
  (forall h, holder s = Some h ->
     sends_of (c_id (h_call h)) ls = h_sends h /\ hits_of (c_id (h_call h)) ls = h_hits h /\
     0 <= h_sends h <= c_retries (h_call h) /\ 0 <= h_hits h /\ phase_ok h) /\
  (forall k, In k (called s) -> 0 <= c_retries k /\ sends_of (c_id k) ls <= c_retries k) /\
  (forall k, In k (waiters s) -> sends_of (c_id k) ls = 0 /\ hits_of (c_id k) ls = 0) /\
  (forall i, ~ In i (ids (called s)) -> sends_of i ls = 0 /\ hits_of i ls = 0) /\
  (forall f, In f (finished s) -> (f_ok f = true -> 0 < f_hits f) /\ (f_ok f = false -> f_sends f = c_retries (f_call f)) /\ f_sends f <= c_retries (f_call f)).

Lemma nodup_ids_inj (l : list call) a b : NoDup (ids l) -> In a l -> In b l -> c_id a = c_id b -> a = b.
Proof.
  induction l as [|x r IH]; intros ND Ha Hb E; [contradiction|]. cbn in ND. inversion ND as [|? ? Hx Hr]; subst.
  destruct Ha as [->|Ha], Hb as [->|Hb]; auto.
  - exfalso. apply Hx. rewrite E. apply in_map. exact Hb.
  - exfalso. apply Hx. rewrite <- E. apply in_map. exact Ha.
Qed.

Lemma in_ids (k : call) l : In k l -> In (c_id k) (ids l). Proof. apply in_map. Qed.

Ltac holder_same Heqo Hc :=
  let h0 := fresh "h0" in let Hh := fresh "Hh" in
  intros h0 Hh; injection Hh as <-; cbn [h_call h_sends h_hits h_phase upd];
  destruct (Hc _ eq_refl) as [? [? [? [? ?]]]].

Lemma cnt_step c ls s l s' : Str s -> Cnt ls s -> step c s l = Some s' -> Cnt (ls ++ [l]) s'.
Proof.
  intros S [CH [CC [CW [CN CF]]]] St. pose proof S as [ND [PM [HH [HW HF]]]].
  assert (HNW : forall h, holder s = Some h -> forall k, In k (waiters s) -> Nat.eqb (c_id k) (c_id (h_call h)) = false).
  { intros h Hh k Hk. apply Nat.eqb_neq. intros E. apply (holder_not_waiting s h S Hh). rewrite <- E. apply in_ids. exact Hk. }
  assert (HNC : forall h, holder s = Some h -> forall i, ~ In i (ids (called s)) -> Nat.eqb i (c_id (h_call h)) = false).
  { intros h Hh i Hi. apply Nat.eqb_neq. intros E. apply Hi. rewrite E. apply in_ids. apply HH. exact Hh. }
  unfold Cnt. destruct l.
  - (* gate *) inv_step St. cbn [holder called waiters finished]. repeat split; intros; rewrite ?sends_of_snoc, ?hits_of_snoc;
      try (apply CH; assumption); try (apply CC; assumption); try (apply CW; assumption); try (apply CN; assumption); try (apply (CF f); assumption).
  - (* call *) inv_step St. apply andb_prop in Heqb. destruct Heqb as [Hb Hr]. apply andb_prop in Hb. destruct Hb as [Hb _].
    apply negb_true_iff in Hb. apply mem_id_false in Hb. apply Z.leb_le in Hr.
    cbn [holder called waiters finished]. repeat split; intros; rewrite ?sends_of_snoc, ?hits_of_snoc;
      try (apply CH; assumption); try (apply (CF f); assumption).
    + apply in_app_or in H. destruct H as [H|[<-|[]]]; [apply CC; assumption|exact Hr].
    + apply in_app_or in H. destruct H as [H|[<-|[]]]; [apply CC; assumption|]. destruct (CN _ Hb) as [-> _]. exact Hr.
    + apply in_app_or in H. destruct H as [H|[<-|[]]]; [apply CW; assumption|apply CN; exact Hb].
    + apply in_app_or in H. destruct H as [H|[<-|[]]]; [apply CW; assumption|apply CN; exact Hb].
    + apply CN. intros C. apply H. rewrite ids_app. apply in_or_app. left. exact C.
    + apply CN. intros C. apply H. rewrite ids_app. apply in_or_app. left. exact C.
  - (* acquire *) inv_step St. apply Nat.eqb_eq in Heqb. subst id.
    cbn [holder called waiters finished]. rewrite ?Heql in *.
    assert (Hc0 : In c0 (c0 :: l)) by (left; reflexivity).
    repeat split; intros; rewrite ?sends_of_snoc, ?hits_of_snoc;
      try (apply CC; assumption); try (apply CN; assumption); try (apply (CF f); assumption); try (apply CW; right; assumption).
    all: injection H as <-; cbn [h_call h_sends h_hits h_phase]; try (apply CW; exact Hc0); try lia.
    + apply CC. apply HW. exact Hc0.
    + exact I.
  - (* send *) inv_step St. apply Nat.eqb_eq in Heqb. subst id. apply andb4 in Heqb0. destruct Heqb0 as [Hready [Hfresh [Hlt Hwin]]]. apply Z.ltb_lt in Hlt.
    cbn [holder called waiters finished]. destruct (CH _ eq_refl) as [C1 [C2 [C3 [C4 C5]]]].
    repeat split; intros; rewrite ?sends_of_snoc, ?hits_of_snoc; try (apply (CF f); assumption).
    all: try (injection H as <-; cbn [h_call h_sends h_hits h_phase upd]; rewrite ?Nat.eqb_refl; try lia; try exact I).
    + apply CC. assumption.
    + destruct (Nat.eqb (c_id k) (c_id (h_call h))) eqn:E; [|apply CC; assumption]. apply Nat.eqb_eq in E.
      rewrite (nodup_ids_inj (called s) k (h_call h) ND H (HH _ eq_refl) E). lia.
    + rewrite (HNW _ eq_refl _ H). apply CW. assumption.
    + apply CW. assumption.
    + rewrite (HNC _ eq_refl _ H). apply CN. assumption.
    + apply CN. assumption.
  - (* miss *) inv_step St. apply Nat.eqb_eq in Heqb. subst id.
    cbn [holder called waiters finished]. destruct (CH _ eq_refl) as [C1 [C2 [C3 [C4 C5]]]]. unfold phase_ok in C5. rewrite Heqp in C5.
    repeat split; intros; rewrite ?sends_of_snoc, ?hits_of_snoc; try (apply (CF f); assumption);
      try (apply CC; assumption); try (apply CW; assumption); try (apply CN; assumption).
    all: injection H as <-; cbn [h_call h_sends h_hits h_phase upd]; try lia. unfold phase_ok. cbn. exact C5.
  - (* hit *) inv_step St. apply Nat.eqb_eq in Heqb. subst id.
    cbn [holder called waiters finished]. destruct (CH _ eq_refl) as [C1 [C2 [C3 [C4 C5]]]].
    repeat split; intros; rewrite ?sends_of_snoc, ?hits_of_snoc; try (apply (CF f); assumption); try (apply CC; assumption).
    all: try (injection H as <-; cbn [h_call h_sends h_hits h_phase upd]; rewrite ?Nat.eqb_refl; try lia).
    + unfold phase_ok. cbn [h_phase upd h_hits]. destruct (is_struct (c_kind (h_call h))); lia.
    + apply CW. assumption.
    + rewrite (HNW _ eq_refl _ H). apply CW. assumption.
    + apply CN. assumption.
    + rewrite (HNC _ eq_refl _ H). apply CN. assumption.
  - (* timeout *) inv_step St. apply Nat.eqb_eq in Heqb. subst id.
    cbn [holder called waiters finished]. destruct (CH _ eq_refl) as [C1 [C2 [C3 [C4 C5]]]].
    repeat split; intros; rewrite ?sends_of_snoc, ?hits_of_snoc; try (apply (CF f); assumption);
      try (apply CC; assumption); try (apply CW; assumption); try (apply CN; assumption).
    all: injection H as <-; cbn [h_call h_sends h_hits h_phase upd]; try lia.
    unfold phase_ok. cbn [h_phase upd h_sends h_call]. destruct (is_struct (c_kind (h_call h))); [|exact I].
    destruct (h_sends h <? c_retries (h_call h)) eqn:E; [exact I|]. apply Z.ltb_ge in E. exact E.
  - (* pause done *) inv_step St. apply Nat.eqb_eq in Heqb. subst id.
    cbn [holder called waiters finished]. destruct (CH _ eq_refl) as [C1 [C2 [C3 [C4 C5]]]].
    repeat split; intros; rewrite ?sends_of_snoc, ?hits_of_snoc; try (apply (CF f); assumption);
      try (apply CC; assumption); try (apply CW; assumption); try (apply CN; assumption).
    all: injection H as <-; cbn [h_call h_sends h_hits h_phase upd]; try lia.
    unfold phase_ok. cbn [h_phase upd h_sends h_call].
    destruct (h_sends h <? c_retries (h_call h)) eqn:E; [exact I|]. apply Z.ltb_ge in E. exact E.
  - (* release *) inv_step St. apply Nat.eqb_eq in Heqb. subst id. apply andb_prop in Heqb0. destruct Heqb0 as [Hmay _].
    cbn [holder called waiters finished]. destruct (CH _ eq_refl) as [C1 [C2 [C3 [C4 C5]]]]. unfold phase_ok in C5.
    repeat split; intros; rewrite ?sends_of_snoc, ?hits_of_snoc;
      try (apply CC; assumption); try (apply CW; assumption); try (apply CN; assumption); try discriminate.
    all: apply in_app_or in H; destruct H as [H|[<-|[]]]; try (apply (CF f); assumption); cbn [f_ok f_hits f_sends f_call] in *; try lia.
    + subst ok. destruct (h_phase h) as [| t0 seg | | b]; try discriminate.
      * destruct seg; [exact C5|discriminate].
      * apply eqb_prop in Hmay. subst b. exact C5.
    + subst ok. destruct (h_phase h) as [| t0 seg | | b]; try discriminate.
      * cbn in Hmay. apply Z.leb_le in Hmay. lia.
      * destruct seg; [|discriminate]. apply andb_prop in Hmay. destruct Hmay as [_ Hm]. cbn in Hm. apply Z.leb_le in Hm. lia.
      * apply eqb_prop in Hmay. subst b. lia.
  - (* cancel *) unfold step in St. destruct (holder s) as [h|] eqn:Hh.
    + destruct (Nat.eqb (c_id (h_call h)) id) eqn:E.
      * injection St as <-. cbn [holder called waiters finished].
        repeat split; intros; rewrite ?sends_of_snoc, ?hits_of_snoc; try discriminate;
          try (apply CC; assumption); try (apply CW; assumption); try (apply CN; assumption); try (apply (CF f); assumption).
      * destruct (mem_id id (ids (waiters s))); [|discriminate]. injection St as <-. cbn [holder called waiters finished].
        repeat split; intros; rewrite ?sends_of_snoc, ?hits_of_snoc;
          try (apply CH; assumption); try (apply CC; assumption); try (apply CN; assumption); try (apply (CF f); assumption).
        all: apply filter_In in H; apply CW; tauto.
    + destruct (mem_id id (ids (waiters s))); [|discriminate]. injection St as <-. cbn [holder called waiters finished].
      repeat split; intros; rewrite ?sends_of_snoc, ?hits_of_snoc; try discriminate;
        try (apply CC; assumption); try (apply CN; assumption); try (apply (CF f); assumption).
      all: apply filter_In in H; apply CW; tauto.
Qed.

Lemma cnt_init : Cnt [] init.
Proof. unfold Cnt, init; cbn. repeat split; intros; try discriminate; try contradiction; reflexivity. Qed.

Lemma cnt_run c : forall ls s, run c init ls = Some s -> Cnt ls s.
Proof. apply run_ind; [exact cnt_init|]. intros ls s l s' R IH St. eapply cnt_step; eauto. eapply str_run; eauto. Qed.

(* ---------- L4: how long a simple call can hold the lock ---------- *)
Definition cfg_ok (c : cfg) : Prop := 0 <= cT c /\ 0 <= cP c /\ 0 <= cJ c /\ 0 <= cE c.
Definition time_ok (c : cfg) (h : hold) : Prop :=
  c_kind (h_call h) = Simple ->
  0 <= h_sends h <= c_retries (h_call h) /\
  match h_phase h with
  | Ready => h_last h - h_acq h <= h_sends h * U c
  | Waiting t0 _ => t0 - h_acq h <= h_sends h * U c - U c + cJ c /\ t0 <= h_last h <= t0 + cT c + cE c
  | Pausing => h_last h - h_acq h <= h_sends h * U c - U c + 2 * cJ c + cT c + cE c
  | Returning _ => h_last h - h_acq h <= h_sends h * U c
  end.
Definition Tim (c : cfg) (s : st) : Prop :=
  (forall h, holder s = Some h -> time_ok c h) /\
  (forall k, In k (waiters s) -> 0 <= c_retries k) /\
  (forall f, In f (finished s) -> c_kind (f_call f) = Simple -> f_dur f <= bound c (f_call f)).

Lemma within_spec lo t hi : within lo t hi = true -> lo <= t <= hi.
Proof. unfold within. intros H. apply andb_prop in H. destruct H as [A B]. apply Z.leb_le in A. apply Z.leb_le in B. lia. Qed.

Lemma tim_step c s l s' : cfg_ok c -> Tim c s -> step c s l = Some s' -> Tim c s'.
Proof.
  intros [CT [CP [CJ CE]]] [TH [TW TF]] St. unfold Tim. destruct l.
  - inv_step St. cbn [holder waiters finished]. auto.
  - inv_step St. cbn [holder waiters finished]. apply andb_prop in Heqb. destruct Heqb as [_ Hr]. apply Z.leb_le in Hr.
    split; [|split]; auto. intros k Hk. apply in_app_or in Hk. destruct Hk as [Hk|[<-|[]]]; auto.
  - inv_step St. cbn [holder waiters finished]. split; [|split]; auto.
    + intros h Hh. injection Hh as <-. unfold time_ok. cbn. intros _. assert (0 <= c_retries c0) by (apply TW; left; reflexivity). lia.
    + intros k Hk. apply TW. right. exact Hk.
  - (* send *) inv_step St. apply andb4 in Heqb0. destruct Heqb0 as [Hready [_ [Hlt Hwin]]]. apply Z.ltb_lt in Hlt. apply within_spec in Hwin.
    cbn [holder waiters finished]. split; [|split]; auto. intros h0 Hh. injection Hh as <-. pose proof (TH _ eq_refl) as T0. unfold time_ok in *.
    cbn [h_call h_sends h_phase h_last h_acq upd]. intros Ks. specialize (T0 Ks). destruct T0 as [T1 T2].
    destruct (h_phase h) as [| t0 seg | | b]; try discriminate.
    + split; [lia|]. split; [|lia]. lia.
    + destruct seg; [|discriminate]. rewrite Ks in Hready. discriminate.
  - (* miss *) inv_step St. apply andb_prop in Heqb0. destruct Heqb0 as [Hage Hwin]. apply Z.leb_le in Hage. apply within_spec in Hwin.
    cbn [holder waiters finished]. split; [|split]; auto. intros h0 Hh. injection Hh as <-. pose proof (TH _ eq_refl) as T0. unfold time_ok in *.
    cbn [h_call h_sends h_phase h_last h_acq upd]. intros Ks. specialize (T0 Ks). rewrite Heqp in T0. lia.
  - (* hit *) inv_step St. apply within_spec in Heqb0.
    cbn [holder waiters finished]. split; [|split]; auto. intros h0 Hh. injection Hh as <-. pose proof (TH _ eq_refl) as T0. unfold time_ok in *.
    cbn [h_call h_sends h_phase h_last h_acq upd]. intros Ks. specialize (T0 Ks). rewrite Heqp in T0. rewrite Ks. cbn [is_struct]. unfold U in *. lia.
  - (* timeout *) inv_step St. apply andb_prop in Heqb0. destruct Heqb0 as [_ Hwin]. apply within_spec in Hwin.
    cbn [holder waiters finished]. split; [|split]; auto. intros h0 Hh. injection Hh as <-. pose proof (TH _ eq_refl) as T0. unfold time_ok in *.
    cbn [h_call h_sends h_phase h_last h_acq upd]. intros Ks. specialize (T0 Ks). rewrite Heqp in T0. rewrite Ks. cbn [is_struct]. lia.
  - (* pause done *) inv_step St. apply within_spec in Heqb0.
    cbn [holder waiters finished]. split; [|split]; auto. intros h0 Hh. injection Hh as <-. pose proof (TH _ eq_refl) as T0. unfold time_ok in *.
    cbn [h_call h_sends h_phase h_last h_acq upd]. intros Ks. specialize (T0 Ks). rewrite Heqp in T0.
    destruct (h_sends h <? c_retries (h_call h)); unfold U in *; lia.
  - (* release *) inv_step St. apply andb_prop in Heqb0. destruct Heqb0 as [Hmay Hwin]. apply within_spec in Hwin.
    cbn [holder waiters finished]. split; [|split]; auto; [intros h0 Hh; discriminate|].
    intros f Hf Ks. apply in_app_or in Hf. destruct Hf as [Hf|[<-|[]]]; [auto|]. cbn [f_call f_dur] in *.
    pose proof (TH _ eq_refl Ks) as [T1 T2]. unfold bound.
    assert (M : h_sends h * U c <= c_retries (h_call h) * U c) by (apply Z.mul_le_mono_nonneg_r; unfold U; lia).
    destruct (h_phase h) as [| t0 seg | | b]; try discriminate; try lia.
    destruct seg; [|discriminate]. rewrite Ks in Hmay. discriminate.
  - (* cancel *) unfold step in St. destruct (holder s) as [h|] eqn:Hh.
    + destruct (Nat.eqb (c_id (h_call h)) id).
      * injection St as <-. cbn [holder waiters finished]. split; [|split]; auto. intros h0 C. discriminate.
      * destruct (mem_id id (ids (waiters s))); [|discriminate]. injection St as <-. cbn [holder waiters finished]. split; [|split]; auto.
        intros k Hk. apply filter_In in Hk. apply TW. tauto.
    + destruct (mem_id id (ids (waiters s))); [|discriminate]. injection St as <-. cbn [holder waiters finished]. split; [|split]; auto.
      intros k Hk. apply filter_In in Hk. apply TW. tauto.
Qed.

Lemma tim_run c : cfg_ok c -> forall ls s, run c init ls = Some s -> Tim c s.
Proof. intros OK. apply (run_ind c (fun _ s => Tim c s)).
  - unfold Tim, init; cbn. repeat split; intros; try discriminate; contradiction.
  - intros ls s l s' _ IH St. eapply tim_step; eauto. Qed.

(* ---------- L5: the lock queue is the arrival order ---------- *)
Lemma pending_snoc ls l : pending (ls ++ [l]) =
  match l with
  | LCall k => pending ls ++ [c_id k]
  | LAcquire i _ | LCancel i => filter (fun j => negb (Nat.eqb j i)) (pending ls)
  | _ => pending ls
  end.
Proof. unfold pending. rewrite fold_left_app. cbn. destruct l; reflexivity. Qed.

Theorem lock_queue_is_arrival_order c : forall ls s, run c init ls = Some s -> pending ls = ids (waiters s).
Proof.
  apply run_ind; [reflexivity|]. intros ls s l s' R IH St. pose proof (str_run c ls s R) as S. rewrite pending_snoc, IH.
  destruct l; try (inv_step St; cbn [waiters]; reflexivity).
  - inv_step St. cbn [waiters]. now rewrite ids_app.
  - inv_step St. apply Nat.eqb_eq in Heqb. subst id. cbn [waiters ids map filter]. rewrite Nat.eqb_refl. cbn [negb].
    apply filter_neq_notin. pose proof (str_nodup_parts s S) as ND. rewrite Heql in ND.
    apply NoDup_app_remove_l in ND. apply NoDup_app_remove_l in ND. apply NoDup_app_remove_l in ND. cbn in ND. inversion ND; assumption.
  - unfold step in St. destruct (holder s) as [h|] eqn:Hh.
    + destruct (Nat.eqb (c_id (h_call h)) id) eqn:E.
      * injection St as <-. cbn [waiters]. apply Nat.eqb_eq in E. subst id. apply filter_neq_notin. apply (holder_not_waiting s h S Hh).
      * destruct (mem_id id (ids (waiters s))); [|discriminate]. injection St as <-. cbn [waiters]. now rewrite ids_filter.
    + destruct (mem_id id (ids (waiters s))); [|discriminate]. injection St as <-. cbn [waiters]. now rewrite ids_filter.
Qed.

(* ---------- the state's ghost lists are the trace's projections ---------- *)
Lemma flat_map_snoc {A B} (f : A -> list B) l x : flat_map f (l ++ [x]) = flat_map f l ++ f x.
Proof. rewrite flat_map_app. cbn. now rewrite app_nil_r. Qed.

Lemma ghost_step c s l s' : step c s l = Some s' ->
  called s' = called s ++ match l with LCall k => [k] | _ => [] end /\
  fin_ids s' = fin_ids s ++ match l with LRelease i _ _ => [i] | _ => [] end /\
  cancelled s' = cancelled s ++ match l with LCancel i => [i] | _ => [] end.
Proof.
  intros St. unfold fin_ids. destruct l; try (inv_step St; cbn [called finished cancelled]; rewrite ?app_nil_r, ?map_app; auto).
  apply Nat.eqb_eq in Heqb. subst id. cbn. auto.
Qed.

Lemma ghosts c : forall ls s, run c init ls = Some s ->
  calls_of ls = ids (called s) /\ releases_of ls = fin_ids s /\ cancels_of ls = cancelled s /\ (forall k, In (LCall k) ls <-> In k (called s)).
Proof.
  apply run_ind.
  - cbn. repeat split; intros; contradiction.
  - intros ls s l s' _ [I1 [I2 [I3 I4]]] St. destruct (ghost_step c s l s' St) as [G1 [G2 G3]].
    unfold calls_of, releases_of, cancels_of in *. rewrite !flat_map_snoc, I1, I2, I3, G1, G2, G3, ids_app.
    split; [destruct l; reflexivity|]. split; [destruct l; reflexivity|]. split; [destruct l; reflexivity|].
    intros k. rewrite !in_app_iff, I4. split.
    + intros [H|[H|[]]]; [left; exact H|right; subst l; left; reflexivity].
    + intros [H|H]; [left; exact H|right]. destruct l; try contradiction. destruct H as [<-|[]]. left. reflexivity.
Qed.

(* ---------- the statements ---------- *)
Theorem at_most_one_in_flight c ls s : run c init ls = Some s -> (List.length (holders_of ls) <= 1)%nat.
Proof. intros R. rewrite (one_in_flight c ls s R). unfold holder_id. destruct (holder s); cbn; lia. Qed.

Theorem send_only_by_holder_and_fresh c ls i t f s : run c init (ls ++ [LSend i t f]) = Some s -> holders_of ls = [i] /\ f = true.
Proof.
  intros R. rewrite run_snoc in R. destruct (run c init ls) as [s0|] eqn:R0; [|discriminate]. rewrite (one_in_flight c ls s0 R0). unfold holder_id.
  inv_step R. apply Nat.eqb_eq in Heqb. subst i. apply andb4 in Heqb0. destruct Heqb0 as [_ [Hf _]]. auto.
Qed.

Theorem attempts_bounded c ls s : run c init ls = Some s -> forall k, In (LCall k) ls -> sends_of (c_id k) ls <= c_retries k.
Proof. intros R k Hk. destruct (cnt_run c ls s R) as [_ [CC _]]. apply CC. apply (ghosts c ls s R). exact Hk. Qed.

Theorem reply_only_if_delivered c ls i t s : run c init (ls ++ [LRelease i t true]) = Some s -> 0 < hits_of i ls.
Proof.
  intros R. rewrite run_snoc in R. destruct (run c init ls) as [s0|] eqn:R0; [|discriminate]. destruct (cnt_run c ls s0 R0) as [CH _].
  inv_step R. apply Nat.eqb_eq in Heqb. subst i. destruct (CH _ eq_refl) as [_ [C2 [_ [_ C5]]]]. rewrite C2. unfold phase_ok in C5.
  apply andb_prop in Heqb0. destruct Heqb0 as [Hmay _].
  destruct (h_phase h) as [| t0 seg | | b]; try discriminate.
  - destruct seg; [exact C5|discriminate].
  - apply eqb_prop in Hmay. subst b. exact C5.
Qed.

Theorem failure_only_when_exhausted c ls i t s : run c init (ls ++ [LRelease i t false]) = Some s ->
  exists k, In (LCall k) ls /\ c_id k = i /\ sends_of i ls = c_retries k.
Proof.
  intros R. rewrite run_snoc in R. destruct (run c init ls) as [s0|] eqn:R0; [|discriminate]. destruct (cnt_run c ls s0 R0) as [CH _].
  pose proof (str_run c ls s0 R0) as [_ [_ [HH _]]]. pose proof (ghosts c ls s0 R0) as [_ [_ [_ G]]].
  inv_step R. apply Nat.eqb_eq in Heqb. subst i. destruct (CH _ eq_refl) as [C1 [_ [C3 [_ C5]]]]. unfold phase_ok in C5.
  exists (h_call h). split; [apply G; apply HH; reflexivity|]. split; [reflexivity|]. rewrite C1.
  apply andb_prop in Heqb0. destruct Heqb0 as [Hmay _].
  destruct (h_phase h) as [| t0 seg | | b]; try discriminate.
  - cbn in Hmay. apply Z.leb_le in Hmay. lia.
  - destruct seg; [|discriminate]. apply andb_prop in Hmay. destruct Hmay as [_ Hm]. cbn in Hm. apply Z.leb_le in Hm. lia.
  - apply eqb_prop in Hmay. subst b. lia.
Qed.

Theorem grant_goes_to_longest_waiting c ls i t s : run c init (ls ++ [LAcquire i t]) = Some s ->
  exists rest, pending ls = i :: rest /\ holders_of ls = [].
Proof.
  intros R. rewrite run_snoc in R. destruct (run c init ls) as [s0|] eqn:R0; [|discriminate].
  rewrite (lock_queue_is_arrival_order c ls s0 R0), (one_in_flight c ls s0 R0). unfold holder_id.
  inv_step R. apply Nat.eqb_eq in Heqb. subst i. exists (ids l). cbn. auto.
Qed.

Theorem duration_bounded c ls s : cfg_ok c -> run c init ls = Some s ->
  forall f, In f (finished s) -> c_kind (f_call f) = Simple -> f_dur f <= c_retries (f_call f) * (cT c + cE c + cP c + 3 * cJ c) + cJ c.
Proof. intros OK R f Hf Ks. destruct (tim_run c OK ls s R) as [_ [_ TF]]. exact (TF f Hf Ks). Qed.

Theorem gated_call_sees_open_gate c ls k s : run c init (ls ++ [LCall k]) = Some s -> c_gated k = true -> gate_of ls = true.
Proof.
  intros R G. rewrite run_snoc in R. destruct (run c init ls) as [s0|] eqn:R0; [|discriminate]. rewrite <- (gate_tracks c ls s0 R0).
  inv_step R. apply andb_prop in Heqb. destruct Heqb as [Hb _]. apply andb_prop in Hb. destruct Hb as [_ Hg]. rewrite G in Hg. exact Hg.
Qed.

(* nobody holds or waits for the lock: every call that ever arrived has returned or was cancelled *)
Theorem all_complete c ls s : run c init ls = Some s -> holders_of ls = [] -> pending ls = [] ->
  forall k, In (LCall k) ls -> In (c_id k) (releases_of ls) \/ In (c_id k) (cancels_of ls).
Proof.
  intros R H P k Hk. pose proof (str_run c ls s R) as [_ [PM _]]. pose proof (ghosts c ls s R) as [_ [G2 [G3 G4]]].
  rewrite (one_in_flight c ls s R) in H. rewrite (lock_queue_is_arrival_order c ls s R) in P. rewrite H, P, G2, G3 in *.
  cbn [app] in PM. rewrite app_nil_r in PM. apply in_app_or. eapply Permutation_in; [exact PM|]. apply in_ids. apply G4. exact Hk.
Qed.

(* ---------- the gate clause as literally stated is false of the engine: three shapes ---------- *)
Definition CFG := {| cT := 4000000; cP := 2000000; cJ := 100000; cE := 5 |}.
Definition A := mkc 0 Simple 1 false false.     (* a ping *)
Definition B := mkc 1 Simple 2 true true.       (* a gated command *)
Definition Q := mkc 2 Simple 1 false true.      (* a query whose call site has no gate check *)
Fixpoint misses (id : nat) (t : Z) (n : nat) : list label :=
  match n with O => [] | S k => LMiss id (t + 100000) :: misses id (t + 100000) k end.
(* one attempt that is never answered: 40 polls, the timeout, the pause *)
Definition lost (id : nat) (t : Z) : list label := misses id t 40 ++ [LTimeout id (t + 4100000); LPauseDone id (t + 6100000)].
Definition w_stale_first : list label :=
  [LGate true; LCall A; LAcquire 0 0; LSend 0 0 true; LCall B; LGate false] ++ lost 0 0 ++ [LRelease 0 6100000 false; LAcquire 1 6100000; LSend 1 6100000 true].
Definition w_stale_retry : list label :=
  [LGate true; LCall B; LAcquire 1 0; LSend 1 0 true; LGate false] ++ lost 1 0 ++ [LSend 1 6100000 true].
Definition w_unguarded : list label := [LCall Q; LAcquire 2 0; LSend 2 0 true].

Theorem no_query_while_gate_closed_refuted :
  option_map stale_sends (run CFG init w_stale_first) = Some 1 /\
  option_map stale_retries (run CFG init w_stale_retry) = Some 1 /\
  option_map unguarded_sends (run CFG init w_unguarded) = Some 1.
Proof. split; [|split]; vm_compute; reflexivity. Qed.

(* non-vacuity: two queued callers, a lost reply, a retry that is answered, FIFO hand-over *)
Definition demo : list label :=
  [LGate true; LCall B; LCall A; LAcquire 1 0; LSend 1 0 true] ++ lost 1 0 ++ [LSend 1 6100000 true;
   LHit 1 6150000; LRelease 1 6150000 true; LAcquire 0 6150000; LSend 0 6150000 true; LHit 0 6200000; LRelease 0 6200000 true].
Example demo_accepted :
  option_map (fun s => (List.length (finished s), map f_sends (finished s), holder s, waiters s)) (run CFG init demo) = Some (2%nat, [2; 1], None, []).
Proof. vm_compute. reflexivity. Qed.
Example cfg_ok_CFG : cfg_ok CFG. Proof. unfold cfg_ok, CFG; cbn; lia. Qed.
(* the acceptor is not trivial: barging, a send without the lock, one attempt too many, a reply out of nowhere are all rejected *)
Example rejects :
  run CFG init [LCall A; LCall B; LAcquire 1 0] = None /\
  run CFG init [LCall A; LCall B; LAcquire 0 0; LSend 1 0 true] = None /\
  run CFG init ([LCall A; LAcquire 0 0; LSend 0 0 true] ++ lost 0 0 ++ [LSend 0 6100000 true]) = None /\
  run CFG init ([LCall A; LAcquire 0 0; LSend 0 0 true] ++ lost 0 0 ++ [LRelease 0 6100000 true]) = None /\
  run CFG init ([LCall A; LAcquire 0 0; LSend 0 0 true] ++ misses 0 0 40 ++ [LMiss 0 4100000]) = None /\
  run CFG init ([LCall A; LAcquire 0 0; LSend 0 0 true] ++ misses 0 0 40 ++ [LTimeout 0 4100000; LSend 0 4100000 true]) = None /\
  run CFG init [LCall A; LAcquire 0 0; LSend 0 0 false] = None /\
  run CFG init [LCall B] = None.
Proof. split; [|split; [|split; [|split; [|split; [|split; [|split]]]]]]; vm_compute; reflexivity. Qed.
