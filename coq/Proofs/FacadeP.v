(* C11: readiness of every shipped combination (finite, complete) and totality of reads on ready combinations. *)
From Coq Require Import ZArith List Bool String Lia.
Require Import GV.Lib.Bytes GV.Model.Accessor GV.Model.TableWf GV.Model.Inventory GV.Model.Facade
               GV.Proofs.AccessorP GV.Proofs.TableP GV.Gen.InventoryTables GV.Gen.AllTables.
Import ListNotations.
Open Scope string_scope.

Definition is_kind (k : mkind) (m : tmodule) : bool :=
  match k, m_kind m with KPack, KPack | KCfg, KCfg | KLog, KLog => true | _, _ => false end.
Definition belongs (p : tmodule) (mid : string) (m : tmodule) : bool :=
  existsb (fun v => String.eqb (m_file m) (m_file p ++ mid ++ GV.Lib.Dec.dec_of_Z v)) [m_version m].
Definition combos : list (tmodule * tmodule) :=
  flat_map (fun p =>
    flat_map (fun c => map (fun l => (c, l)) (filter (fun m => is_kind KLog m && belongs p "-log-" m) all_tables))
             (filter (fun m => is_kind KCfg m && belongs p "-cfg-" m) all_tables))
    (filter (is_kind KPack) all_tables).

(* K3: combinations of the audited commit on which the facade cannot be constructed (genuine findings;
   a new one breaks the obligation below) *)
Definition known_bad_combos : list (string * string) :=
  [("inxm-cfg-1", "inxm-log-2"); ("inxm-cfg-2", "inxm-log-2"); ("inxm-cfg-3", "inxm-log-2"); ("inxm-cfg-4", "inxm-log-2");
   ("inxm-cfg-6", "inxm-log-2"); ("inxm-cfg-7", "inxm-log-2"); ("inxm-cfg-8", "inxm-log-2"); ("inxm-cfg-9", "inxm-log-2");
   ("mas-ibc-32k-cfg-1", "mas-ibc-32k-log-1");
   ("mrsteam-cfg-1", "mrsteam-log-1"); ("mrsteam-cfg-1", "mrsteam-log-2"); ("mrsteam-cfg-1", "mrsteam-log-3");
   ("mrsteam-cfg-2", "mrsteam-log-1"); ("mrsteam-cfg-2", "mrsteam-log-2"); ("mrsteam-cfg-2", "mrsteam-log-3");
   ("mrsteam-cfg-3", "mrsteam-log-1"); ("mrsteam-cfg-3", "mrsteam-log-2"); ("mrsteam-cfg-3", "mrsteam-log-3")].
Definition is_bad_combo (c : tmodule * tmodule) : bool :=
  existsb (fun p => String.eqb (fst p) (m_file (fst c)) && String.eqb (snd p) (m_file (snd c))) known_bad_combos.

Lemma combos_count : List.length combos = 895%nat.
Proof. vm_compute. reflexivity. Qed.
Lemma combos_ready : forallb (fun c => combo_ready devices_table (fst c) (snd c) || is_bad_combo c) combos = true.
Proof. vm_compute. reflexivity. Qed.
(* and the listed ones really are not ready (the exception list is tight) *)
Lemma bad_combos_not_ready : forallb (fun c => negb (is_bad_combo c) || negb (combo_ready devices_table (fst c) (snd c))) combos = true.
Proof. vm_compute. reflexivity. Qed.

(* on a ready combination every key the facade reads names an addressable item, so reading it is total on every block *)
Theorem ready_reads_total cfg log k blk :
  combo_ready devices_table cfg log = true -> In k (read_keys devices_table cfg log) ->
  List.length blk = 1024%nat -> bytes_ok blk = true ->
  exists t v, lookup_item cfg log k = Some t /\ get_value (acc_of (t_decl t)) blk = Some v.
Proof.
  intros Hr Hk Hl Hb. unfold combo_ready in Hr. apply andb_prop in Hr. destruct Hr as [Hr _]. rewrite forallb_forall in Hr.
  specialize (Hr k Hk). destruct (lookup_item cfg log k) as [t|]; [|discriminate].
  destruct (get_value_total _ blk (item_ok_wf t blk Hr Hl Hb)) as [v Hv]. eauto.
Qed.

(* stored values outside a label list read as "Unknown" rather than failing *)
Theorem enum_out_of_range_unknown a raw : a_type a = TEnum -> (Z.of_nat (List.length (a_items a)) <= raw)%Z ->
  decode a raw = VStr "Unknown".
Proof. intros Ht Hr. unfold decode. rewrite Ht. f_equal. apply nth_overflow. lia. Qed.

Theorem watercare_str_total : forall m, watercare_str m <> None.
Proof.
  intros [m|]; cbn [watercare_str]; [|discriminate].
  destruct ((m <? 0)%Z || (Z.of_nat (List.length watercare_labels) <=? m)%Z) eqn:E; [discriminate|].
  apply orb_false_iff in E. destruct E as [E1 E2]. apply Z.ltb_ge in E1. apply Z.leb_gt in E2.
  destruct (nth_error watercare_labels (Z.to_nat m)) eqn:N; [discriminate|]. apply nth_error_None in N. lia.
Qed.

Theorem active_reminders_valid rs : Forall (fun r => (0 <= fst r <= 6)%Z) rs ->
  Forall (fun r => (1 <= fst r <= 6)%Z /\ reminder_desc (fst r) <> "Unhandled" /\ reminder_desc (fst r) <> "Invalid") (active_reminders rs).
Proof.
  intros H. unfold active_reminders. rewrite Forall_forall in *. intros r Hr. apply filter_In in Hr. destruct Hr as [Hin Hn].
  specialize (H r Hin). apply negb_true_iff in Hn. apply Z.eqb_neq in Hn.
  assert (C : (fst r = 1 \/ fst r = 2 \/ fst r = 3 \/ fst r = 4 \/ fst r = 5 \/ fst r = 6)%Z) by lia.
  split; [lia|]. destruct C as [C|[C|[C|[C|[C|C]]]]]; rewrite C; cbn; split; discriminate.
Qed.
