(* C07: exactly-once, only by an acceptor or the unhandled consumer, mis-addressed packets inert, no head-of-line blocking. *)
From Coq Require Import List Bool Arith Lia Permutation.
Require Import GV.Model.Dispatch.
Import ListNotations.

Definition ids (s : st) := map fst (q s) ++ map (fun p => fst (fst p)) (popped s).

Definition Inv (s : st) : Prop :=
  NoDup (ids s) /\ (forall i, In i (ids s) <-> i < nextid s) /\
  (forall i d k, In (i, d, K k) (popped s) -> accepts k d = true) /\
  (marked s = true -> q s <> []).

Lemma pop_by_inv s c : Inv s -> (forall i d r k, q s = (i, d) :: r -> c = K k -> accepts k d = true) -> Inv (pop_by s c).
Proof.
  intros HI Hc. unfold pop_by. destruct (q s) as [|[i d] r] eqn:Eq; [exact HI|].
  destruct HI as [Hn [Hr [Ha Hm]]]. unfold Inv, ids in *. rewrite Eq in *. simpl in *.
  assert (HP : Permutation (i :: map fst r ++ map (fun p => fst (fst p)) (popped s))
                           (map fst r ++ i :: map (fun p => fst (fst p)) (popped s))) by apply Permutation_middle.
  split; [|split; [|split]].
  - eapply Permutation_NoDup; eauto.
  - intros j. specialize (Hr j). split; intros H.
    + apply Hr. apply (Permutation_in _ (Permutation_sym HP)) in H. exact H.
    + apply (Permutation_in _ HP). apply Hr. exact H.
  - intros i0 d0 k [He|Hin]; [|eauto]. inversion He; subst. eapply Hc; eauto.
  - discriminate.
Qed.

Lemma put_inv s d : Inv s -> Inv (put s d).
Proof.
  intros [Hn [Hr [Ha Hm]]]. unfold Inv, ids, put in *; simpl.
  rewrite map_app; simpl. rewrite <- app_assoc; simpl.
  assert (HP : Permutation (nextid s :: map fst (q s) ++ map (fun p => fst (fst p)) (popped s))
                           (map fst (q s) ++ nextid s :: map (fun p => fst (fst p)) (popped s))) by apply Permutation_middle.
  repeat split; auto.
  - eapply Permutation_NoDup; [exact HP|]. constructor; auto. intros H. apply Hr in H. lia.
  - intros H. eapply Permutation_in in H; [|symmetry; exact HP]. destruct H as [H|H]; [lia|]. apply Hr in H. lia.
  - intros H. eapply Permutation_in; [exact HP|]. destruct (Nat.eq_dec i (nextid s)); [left; auto|right; apply Hr; lia].
  - intros _ H. destruct (q s); discriminate.
Qed.

Lemma step_inv s l : Inv s -> Inv (step s l).
Proof.
  intros HI. destruct l as [d|[|k]]; cbn [step].
  - apply put_inv; exact HI.
  - destruct (uph s) eqn:Eu.
    + assert (HI' : Inv (mk (q s) (marked s) false (popped s) (nextid s))) by (destruct HI as [A [B [C D]]]; unfold Inv, ids in *; simpl; auto).
      destruct (marked s); auto. apply pop_by_inv; auto. intros; discriminate.
    + destruct (q s) eqn:Eq; auto. destruct HI as [Hn [Hr [Ha Hm]]]. unfold Inv, ids in *; simpl in *. rewrite Eq in *.
      repeat split; auto; try apply Hr. discriminate.
  - destruct (q s) as [|[i d] r] eqn:Eq; auto. destruct (accepts k d) eqn:Ea; auto.
    assert (HP : Inv (pop_by s (K k))).
    { apply pop_by_inv; auto. intros i0 d0 r0 k0 Hq Hk. rewrite Eq in Hq. inversion Hq; inversion Hk; subst. auto. }
    destruct d as [a|ours inner]; auto. destruct ours; auto. destruct (Nat.eqb k PACKET_CLASS); auto. apply put_inv. exact HP.
Qed.

Lemma init_inv : Inv init.
Proof. repeat split; simpl; try constructor; intros; try lia; try contradiction; try discriminate. Qed.

Theorem dispatch_safe ls : Inv (run init ls).
Proof. unfold run. generalize init_inv. generalize init. induction ls; simpl; intros; auto. apply IHls. now apply step_inv. Qed.

(* ---------- consequences in the property's words ---------- *)
(* every datagram ever queued (arrived, or re-queued packet content) is either still queued or has been popped - exactly once *)
Theorem pop_exactly_once ls : let s := run init ls in
  NoDup (map fst (q s) ++ map (fun p => fst (fst p)) (popped s)) /\
  forall i, i < nextid s <-> In i (map fst (q s)) \/ In i (map (fun p => fst (fst p)) (popped s)).
Proof. intros s. destruct (dispatch_safe ls) as [A [B _]]. fold s in A, B. split; [exact A|].
  intros i. rewrite <- (B i). unfold ids. rewrite in_app_iff. tauto. Qed.

(* never by a consumer that does not accept it: every pop is by an acceptor or by the unhandled consumer *)
Theorem pop_only_by_acceptor ls i d c : In (i, d, c) (popped (run init ls)) -> c = Unh \/ exists k, c = K k /\ accepts k d = true.
Proof. intros H. destruct (dispatch_safe ls) as [_ [_ [C _]]]. destruct c as [|k]; [left; reflexivity|right]. exists k. split; [reflexivity|]. eapply C; eauto. Qed.

Lemma nodup_app_r {A} (a b : list A) : NoDup (a ++ b) -> NoDup b.
Proof. induction a as [|x r IH]; cbn; intros H; [exact H|]. inversion H; subst. auto. Qed.

(* never both: one datagram id is popped at most once, hence by one consumer *)
Theorem never_both ls i d1 c1 d2 c2 : let s := run init ls in
  In (i, d1, c1) (popped s) -> In (i, d2, c2) (popped s) -> (i, d1, c1) = (i, d2, c2) \/ False.
Proof.
  intros s H1 H2. destruct (dispatch_safe ls) as [A _]. fold s in A. unfold ids in A. apply nodup_app_r in A.
  left. clear - A H1 H2. induction (popped s) as [|p r IH]; [destruct H1|]. cbn [map] in A. inversion A as [|? ? Hn Hr]; subst.
  destruct H1 as [H1|H1], H2 as [H2|H2].
  - congruence.
  - subst p. exfalso. apply Hn. apply in_map_iff. exists (i, d2, c2). auto.
  - subst p. exfalso. apply Hn. apply in_map_iff. exists (i, d1, c1). auto.
  - auto.
Qed.

(* a framed packet whose identifier pair is not this connection's: the packet consumer pops it and NOTHING else changes *)
Theorem misaddressed_is_inert s i inner r : q s = (i, Packet false inner) :: r ->
  step s (Poll (K PACKET_CLASS)) = mk r false (uph s) ((i, Packet false inner, K PACKET_CLASS) :: popped s) (nextid s).
Proof. intros H. cbn [step]. rewrite H. cbn. unfold pop_by. rewrite H. reflexivity. Qed.
(* ... whereas a correctly addressed one puts exactly its content at the tail *)
Theorem addressed_requeues s i inner r : q s = (i, Packet true inner) :: r ->
  q (step s (Poll (K PACKET_CLASS))) = r ++ [(nextid s, Plain inner)].
Proof. intros H. cbn [step]. rewrite H. cbn. unfold pop_by. rewrite H. reflexivity. Qed.

Lemma pop_by_q t c : q (pop_by t c) = tl (q t) /\ nextid (pop_by t c) = nextid t.
Proof. unfold pop_by. destruct (q t) as [|[i d] r] eqn:E; cbn; [rewrite E; auto|auto]. Qed.
Lemma in_tl {A} (y : A) l : In y (tl l) -> In y l.
Proof. destruct l; cbn; auto. Qed.
Lemma map_tl {A B} (f : A -> B) l : map f (tl l) = tl (map f l).
Proof. destruct l; reflexivity. Qed.

Lemma step_q_ids t l y : In y (map fst (q (step t l))) -> In y (map fst (q t)) \/ y = nextid t.
Proof.
  destruct l as [d|[|k]]; cbn [step].
  - unfold put; cbn. rewrite map_app. cbn. intros C. apply in_app_or in C. destruct C as [C|[C|[]]]; [left; exact C|right; symmetry; exact C].
  - destruct (uph t).
    + destruct (marked t); cbn [q]; [|auto]. destruct (pop_by_q (mk (q t) true false (popped t) (nextid t)) Unh) as [E _]. rewrite E. cbn [q].
      rewrite map_tl. intros C. left. apply in_tl. exact C.
    + destruct (q t) eqn:E; cbn [q]; rewrite ?E; intros C; left; exact C.
  - destruct (q t) as [|[i d] r0] eqn:E; [rewrite E; auto|]. destruct (accepts k d); [|rewrite E; auto].
    assert (P : forall z, In z (map fst (q (pop_by t (K k)))) -> In z (map fst (q t))).
    { intros z Hz. destruct (pop_by_q t (K k)) as [Eq _]. rewrite Eq, map_tl in Hz. apply in_tl. exact Hz. }
    rewrite <- E. destruct d as [ac|ours inner]; [intros C; left; apply P; exact C|].
    destruct ours; [|intros C; left; apply P; exact C]. destruct (Nat.eqb k PACKET_CLASS); [|intros C; left; apply P; exact C].
    unfold put; cbn [q]. rewrite map_app. cbn. intros C. apply in_app_or in C. destruct C as [C|[C|[]]]; [left; apply P; exact C|].
    right. destruct (pop_by_q t (K k)) as [_ En]. rewrite En in C. symmetry. exact C.
Qed.

Lemma step_nextid t l : nextid t <= nextid (step t l).
Proof.
  destruct l as [d|[|k]]; cbn [step].
  - unfold put; cbn. lia.
  - destruct (uph t).
    + destruct (marked t); cbn [nextid]; [|lia]. destruct (pop_by_q (mk (q t) true false (popped t) (nextid t)) Unh) as [_ E]. rewrite E. cbn. lia.
    + destruct (q t); cbn; lia.
  - destruct (q t) as [|[i d] r0] eqn:E; [lia|]. destruct (accepts k d); [|lia].
    destruct (pop_by_q t (K k)) as [_ En]. destruct d as [ac|ours inner]; [lia|]. destruct ours; [|lia]. destruct (Nat.eqb k PACKET_CLASS); [|lia].
    unfold put; cbn [nextid]. lia.
Qed.

Lemma gone_forever x0 ls : forall t, ~ In x0 (map fst (q t)) -> x0 < nextid t -> ~ In x0 (map fst (q (fold_left step ls t))).
Proof.
  induction ls as [|l ls IH]; intros t Hn Hlt; [exact Hn|]. cbn [fold_left]. apply IH.
  - intros C. apply step_q_ids in C. destruct C as [C|C]; [contradiction|lia].
  - pose proof (step_nextid t l). lia.
Qed.

(* no head-of-line blocking: whatever the head is, three polls of the unhandled consumer remove it, however many datagrams
   arrive in between and even if nobody else ever polls *)
Definition puts_only (ls : list label) : Prop := Forall (fun l => match l with Put _ => True | _ => False end) ls.
Lemma puts_keep_head ls : puts_only ls -> forall s x r, q s = x :: r ->
  exists r', q (run s ls) = x :: r' /\ marked (run s ls) = marked s /\ uph (run s ls) = uph s.
Proof.
  induction ls as [|l t IH]; intros H s x r Hq; [exists r; auto|]. inversion H as [|? ? Hl Ht]; subst. destruct l as [d|c]; [|contradiction].
  cbn [run fold_left]. destruct (IH Ht (step s (Put d)) x (r ++ [(nextid s, d)])) as [r' [A [B C]]]; [cbn; rewrite Hq; reflexivity|].
  exists r'. auto.
Qed.

Theorem head_leaves_within_three_unhandled_polls s x r a b c :
  Inv s -> q s = x :: r -> puts_only a -> puts_only b -> puts_only c ->
  let s' := run s (a ++ [Poll Unh] ++ b ++ [Poll Unh] ++ c ++ [Poll Unh]) in
  ~ In (fst x) (map fst (q s')).
Proof.
  intros HI Hq Ha Hb Hc s'. unfold s', run. rewrite !fold_left_app. cbn [fold_left].
  fold (run s a). destruct (puts_keep_head a Ha s x r Hq) as [r1 [Q1 [M1 U1]]].
  assert (I1 : Inv (run s a)). { clear - HI. unfold run. revert s HI. induction a; simpl; intros; auto. apply IHa. now apply step_inv. }
  set (s1 := run s a) in *.
  assert (Hlt : fst x < nextid s1).
  { destruct I1 as [_ [B _]]. apply B. unfold ids. rewrite Q1. cbn. left. reflexivity. }
  (* first unhandled poll *)
  destruct (uph s1) eqn:Eu.
  - destruct (marked s1) eqn:Em.
    + (* it was mid-sleep with the mark still set: this poll pops x *)
      replace (step (fold_left step c (step (fold_left step b (step s1 (Poll Unh))) (Poll Unh))) (Poll Unh))
        with (fold_left step (b ++ [Poll Unh] ++ c ++ [Poll Unh]) (step s1 (Poll Unh))) by (rewrite !fold_left_app; reflexivity).
      apply gone_forever.
      * cbn [step]. rewrite Eu, Em. unfold pop_by. cbn [q]. rewrite Q1. destruct x as [i d]. cbn.
        destruct I1 as [N _]. unfold ids in N. rewrite Q1 in N. cbn in N. inversion N as [|? ? Hn _]; subst. intros C. apply Hn. apply in_or_app. left. exact C.
      * cbn [step]. rewrite Eu, Em. unfold pop_by. cbn [q]. rewrite Q1. destruct x. cbn. exact Hlt.
    + (* stale wake: nothing popped, phase cleared; second poll marks, third pops *)
      set (s2 := step s1 (Poll Unh)).
      assert (I2 : Inv s2) by (apply step_inv; exact I1).
      assert (Q2 : q s2 = x :: r1 /\ uph s2 = false) by (unfold s2; cbn [step]; rewrite Eu, Em; cbn; split; auto).
      destruct Q2 as [Q2 U2]. fold s2.
      destruct (puts_keep_head b Hb s2 x r1 Q2) as [r2 [Q3 [M3 U3]]]. fold (run s2 b). set (s3 := run s2 b) in *.
      assert (I3 : Inv s3). { clear - I2. unfold s3, run. revert I2. generalize s2. induction b; simpl; intros; auto. apply IHb. now apply step_inv. }
      set (s4 := step s3 (Poll Unh)).
      assert (I4 : Inv s4) by (apply step_inv; exact I3).
      assert (Q4 : q s4 = x :: r2 /\ uph s4 = true /\ marked s4 = true) by (unfold s4; cbn [step]; rewrite U3, U2, Q3; cbn; auto).
      destruct Q4 as [Q4 [U4 M4]]. fold s4.
      destruct (puts_keep_head c Hc s4 x r2 Q4) as [r3 [Q5 [M5 U5]]]. fold (run s4 c). set (s5 := run s4 c) in *.
      assert (I5 : Inv s5). { clear - I4. unfold s5, run. revert I4. generalize s4. induction c; simpl; intros; auto. apply IHc. now apply step_inv. }
      cbn [step]. rewrite U5, U4, M5, M4. unfold pop_by. cbn [q]. rewrite Q5. destruct x as [i d]. cbn.
      destruct I5 as [N _]. unfold ids in N. rewrite Q5 in N. cbn in N. inversion N as [|? ? Hn _]; subst. intros C. apply Hn. apply in_or_app. left. exact C.
  - (* idle: first poll marks, second pops *)
    set (s2 := step s1 (Poll Unh)).
    assert (I2 : Inv s2) by (apply step_inv; exact I1).
    assert (Q2 : q s2 = x :: r1 /\ uph s2 = true /\ marked s2 = true) by (unfold s2; cbn [step]; rewrite Eu, Q1; cbn; auto).
    destruct Q2 as [Q2 [U2 M2]]. fold s2.
    destruct (puts_keep_head b Hb s2 x r1 Q2) as [r2 [Q3 [M3 U3]]]. fold (run s2 b). set (s3 := run s2 b) in *.
    assert (I3 : Inv s3). { clear - I2. unfold s3, run. revert I2. generalize s2. induction b; simpl; intros; auto. apply IHb. now apply step_inv. }
    replace (step (fold_left step c (step s3 (Poll Unh))) (Poll Unh))
      with (fold_left step (c ++ [Poll Unh]) (step s3 (Poll Unh))) by (rewrite !fold_left_app; reflexivity).
    apply gone_forever.
    + cbn [step]. rewrite U3, U2, M3, M2. unfold pop_by. cbn [q]. rewrite Q3. destruct x as [i d]. cbn.
      destruct I3 as [N _]. unfold ids in N. rewrite Q3 in N. cbn in N. inversion N as [|? ? Hn _]; subst. intros C. apply Hn. apply in_or_app. left. exact C.
    + cbn [step]. rewrite U3, U2, M3, M2. unfold pop_by. cbn [q]. rewrite Q3. destruct x. cbn.
      destruct I3 as [_ [B _]]. apply B. unfold ids. rewrite Q3. cbn. left. reflexivity.
Qed.
