(* C07: exactly-once, only by an acceptor or the unhandled consumer, mis-addressed packets inert, no head-of-line blocking. *)
From Coq Require Import List Bool Arith Lia Permutation.
Require Import GV.Gen.DispatchFacts GV.Model.Dispatch.
Import ListNotations.

Definition ids (s : st) := map fst (q s) ++ map (fun p => fst (fst p)) (popped s).

Definition Inv (s : st) : Prop :=
  NoDup (ids s) /\ (forall i, In i (ids s) <-> i < nextid s) /\
  (forall i d k, In (i, d, K k) (popped s) -> accepts k d = true) /\
  (marked s = true -> q s <> []).
Definition InvU (s : st) : Prop := uph s <= unhandled_patience.

Lemma pop_by_inv s c : Inv s -> (forall i d r k, q s = (i, d) :: r -> c = K k -> accepts k d = true) -> Inv (pop_by s c).
Proof.
  intros HI Hc. unfold pop_by. destruct (q s) as [|[i d] r] eqn:Eq; [exact HI|].
  destruct HI as [Hn [Hr [Ha Hm]]]. unfold Inv, ids in *. rewrite Eq in *. simpl in *.
  assert (HP : Permutation (i :: map fst r ++ map (fun p => fst (fst p)) (popped s))
                           (map fst r ++ i :: map (fun p => fst (fst p)) (popped s))) by apply Permutation_middle.
  split; [|split; [|split]].
  - eapply Permutation_NoDup; eauto.
  - intros j. specialize (Hr j). split; intros H.
    + apply Hr. apply (Permutation_in _ (Permutation_sym HP)) in H. exact H.
    + apply (Permutation_in _ HP). apply Hr. exact H.
  - intros i0 d0 k [He|Hin]; [|eauto]. inversion He; subst. eapply Hc; eauto.
  - discriminate.
Qed.

Lemma put_inv s d : Inv s -> Inv (put s d).
Proof.
  intros [Hn [Hr [Ha Hm]]]. unfold Inv, ids, put in *; simpl.
  rewrite map_app; simpl. rewrite <- app_assoc; simpl.
  assert (HP : Permutation (nextid s :: map fst (q s) ++ map (fun p => fst (fst p)) (popped s))
                           (map fst (q s) ++ nextid s :: map (fun p => fst (fst p)) (popped s))) by apply Permutation_middle.
  repeat split; auto.
  - eapply Permutation_NoDup; [exact HP|]. constructor; auto. intros H. apply Hr in H. lia.
  - intros H. eapply Permutation_in in H; [|symmetry; exact HP]. destruct H as [H|H]; [lia|]. apply Hr in H. lia.
  - intros H. eapply Permutation_in; [exact HP|]. destruct (Nat.eq_dec i (nextid s)); [left; auto|right; apply Hr; lia].
  - intros _ H. destruct (q s); discriminate.
Qed.

Lemma step_inv s l : Inv s -> Inv (step s l).
Proof.
  intros HI. destruct l as [d|[|k]]; cbn [step].
  - apply put_inv; exact HI.
  - destruct (uph s) as [|n] eqn:Eu.
    + destruct (q s) eqn:Eq; auto. destruct HI as [Hn [Hr [Ha Hm]]]. unfold Inv, ids in *; simpl in *. rewrite Eq in *.
      repeat split; auto; try apply Hr. discriminate.
    + assert (HI' : forall u, Inv (mk (q s) (marked s) u (popped s) (nextid s))) by (intros u; destruct HI as [A [B [C D]]]; unfold Inv, ids in *; simpl; auto).
      destruct (marked s); auto. destruct n; auto. apply pop_by_inv; auto. intros; discriminate.
  - destruct (q s) as [|[i d] r] eqn:Eq; auto. destruct (accepts k d) eqn:Ea; auto.
    assert (HP : Inv (pop_by s (K k))).
    { apply pop_by_inv; auto. intros i0 d0 r0 k0 Hq Hk. rewrite Eq in Hq. inversion Hq; inversion Hk; subst. auto. }
    destruct d as [a|ours inner]; auto. destruct ours; auto. destruct (Nat.eqb k PACKET_CLASS); auto. apply put_inv. exact HP.
Qed.

Lemma init_inv : Inv init.
Proof. repeat split; simpl; try constructor; intros; try lia; try contradiction; try discriminate. Qed.

Theorem dispatch_safe ls : Inv (run init ls).
Proof. unfold run. generalize init_inv. generalize init. induction ls; simpl; intros; auto. apply IHls. now apply step_inv. Qed.

(* ---------- consequences in the property's words ---------- *)
(* every datagram ever queued (arrived, or re-queued packet content) is either still queued or has been popped - exactly once *)
Theorem pop_exactly_once ls : let s := run init ls in
  NoDup (map fst (q s) ++ map (fun p => fst (fst p)) (popped s)) /\
  forall i, i < nextid s <-> In i (map fst (q s)) \/ In i (map (fun p => fst (fst p)) (popped s)).
Proof. intros s. destruct (dispatch_safe ls) as [A [B _]]. fold s in A, B. split; [exact A|].
  intros i. rewrite <- (B i). unfold ids. rewrite in_app_iff. tauto. Qed.

(* never by a consumer that does not accept it: every pop is by an acceptor or by the unhandled consumer *)
Theorem pop_only_by_acceptor ls i d c : In (i, d, c) (popped (run init ls)) -> c = Unh \/ exists k, c = K k /\ accepts k d = true.
Proof. intros H. destruct (dispatch_safe ls) as [_ [_ [C _]]]. destruct c as [|k]; [left; reflexivity|right]. exists k. split; [reflexivity|]. eapply C; eauto. Qed.

Lemma nodup_app_r {A} (a b : list A) : NoDup (a ++ b) -> NoDup b.
Proof. induction a as [|x r IH]; cbn; intros H; [exact H|]. inversion H; subst. auto. Qed.

(* never both: one datagram id is popped at most once, hence by one consumer *)
Theorem never_both ls i d1 c1 d2 c2 : let s := run init ls in
  In (i, d1, c1) (popped s) -> In (i, d2, c2) (popped s) -> (i, d1, c1) = (i, d2, c2) \/ False.
Proof.
  intros s H1 H2. destruct (dispatch_safe ls) as [A _]. fold s in A. unfold ids in A. apply nodup_app_r in A.
  left. clear - A H1 H2. induction (popped s) as [|p r IH]; [destruct H1|]. cbn [map] in A. inversion A as [|? ? Hn Hr]; subst.
  destruct H1 as [H1|H1], H2 as [H2|H2].
  - congruence.
  - subst p. exfalso. apply Hn. apply in_map_iff. exists (i, d2, c2). auto.
  - subst p. exfalso. apply Hn. apply in_map_iff. exists (i, d1, c1). auto.
  - auto.
Qed.

(* a framed packet whose identifier pair is not this connection's: the packet consumer pops it and NOTHING else changes *)
Theorem misaddressed_is_inert s i inner r : q s = (i, Packet false inner) :: r ->
  step s (Poll (K PACKET_CLASS)) = mk r false (uph s) ((i, Packet false inner, K PACKET_CLASS) :: popped s) (nextid s).
Proof. intros H. cbn [step]. rewrite H. cbn. unfold pop_by. rewrite H. reflexivity. Qed.
(* ... whereas a correctly addressed one puts exactly its content at the tail *)
Theorem addressed_requeues s i inner r : q s = (i, Packet true inner) :: r ->
  q (step s (Poll (K PACKET_CLASS))) = r ++ [(nextid s, Plain inner)].
Proof. intros H. cbn [step]. rewrite H. cbn. unfold pop_by. rewrite H. reflexivity. Qed.

Lemma pop_by_q t c : q (pop_by t c) = tl (q t) /\ nextid (pop_by t c) = nextid t.
Proof. unfold pop_by. destruct (q t) as [|[i d] r] eqn:E; cbn; [rewrite E; auto|auto]. Qed.
Lemma in_tl {A} (y : A) l : In y (tl l) -> In y l.
Proof. destruct l; cbn; auto. Qed.
Lemma map_tl {A B} (f : A -> B) l : map f (tl l) = tl (map f l).
Proof. destruct l; reflexivity. Qed.

Lemma step_q_ids t l y : In y (map fst (q (step t l))) -> In y (map fst (q t)) \/ y = nextid t.
Proof.
  destruct l as [d|[|k]]; cbn [step].
  - unfold put; cbn. rewrite map_app. cbn. intros C. apply in_app_or in C. destruct C as [C|[C|[]]]; [left; exact C|right; symmetry; exact C].
  - destruct (uph t) as [|n].
    + destruct (q t) eqn:E; cbn [q]; rewrite ?E; intros C; left; exact C.
    + destruct (marked t); cbn [q]; [|auto]. destruct n; cbn [q]; [|auto].
      destruct (pop_by_q (mk (q t) true 0 (popped t) (nextid t)) Unh) as [E _]. rewrite E. cbn [q].
      rewrite map_tl. intros C. left. apply in_tl. exact C.
  - destruct (q t) as [|[i d] r0] eqn:E; [rewrite E; auto|]. destruct (accepts k d); [|rewrite E; auto].
    assert (P : forall z, In z (map fst (q (pop_by t (K k)))) -> In z (map fst (q t))).
    { intros z Hz. destruct (pop_by_q t (K k)) as [Eq _]. rewrite Eq, map_tl in Hz. apply in_tl. exact Hz. }
    rewrite <- E. destruct d as [ac|ours inner]; [intros C; left; apply P; exact C|].
    destruct ours; [|intros C; left; apply P; exact C]. destruct (Nat.eqb k PACKET_CLASS); [|intros C; left; apply P; exact C].
    unfold put; cbn [q]. rewrite map_app. cbn. intros C. apply in_app_or in C. destruct C as [C|[C|[]]]; [left; apply P; exact C|].
    right. destruct (pop_by_q t (K k)) as [_ En]. rewrite En in C. symmetry. exact C.
Qed.

Lemma step_nextid t l : nextid t <= nextid (step t l).
Proof.
  destruct l as [d|[|k]]; cbn [step].
  - unfold put; cbn. lia.
  - destruct (uph t) as [|n].
    + destruct (q t); cbn; lia.
    + destruct (marked t); cbn [nextid]; [|lia]. destruct n; cbn [nextid]; [|lia].
      destruct (pop_by_q (mk (q t) true 0 (popped t) (nextid t)) Unh) as [_ E]. rewrite E. cbn. lia.
  - destruct (q t) as [|[i d] r0] eqn:E; [lia|]. destruct (accepts k d); [|lia].
    destruct (pop_by_q t (K k)) as [_ En]. destruct d as [ac|ours inner]; [lia|]. destruct ours; [|lia]. destruct (Nat.eqb k PACKET_CLASS); [|lia].
    unfold put; cbn [nextid]. lia.
Qed.

Lemma gone_forever x0 ls : forall t, ~ In x0 (map fst (q t)) -> x0 < nextid t -> ~ In x0 (map fst (q (fold_left step ls t))).
Proof.
  induction ls as [|l ls IH]; intros t Hn Hlt; [exact Hn|]. cbn [fold_left]. apply IH.
  - intros C. apply step_q_ids in C. destruct C as [C|C]; [contradiction|lia].
  - pose proof (step_nextid t l). lia.
Qed.

(* the unhandled consumer's phase counter never exceeds its patience *)
Lemma step_invU s l : InvU s -> InvU (step s l).
Proof.
  unfold InvU. intros H. destruct l as [d|[|k]]; cbn [step].
  - unfold put; cbn. exact H.
  - destruct (uph s) as [|n] eqn:Eu.
    + destruct (q s); cbn; lia.
    + destruct (marked s); cbn [uph]; [|lia]. destruct n; [|cbn; lia]. unfold pop_by. cbn [q]. destruct (q s) as [|[i d] r]; cbn; lia.
  - destruct (q s) as [|[i d] r] eqn:Eq; auto. destruct (accepts k d); auto.
    assert (U : uph (pop_by s (K k)) = uph s) by (unfold pop_by; rewrite Eq; reflexivity).
    destruct d as [a|ours inner]; [lia|]. destruct ours; [|lia]. destruct (Nat.eqb k PACKET_CLASS); [|lia]. unfold put; cbn [uph]. lia.
Qed.

(* no head-of-line blocking: whatever the head is, patience + 2 polls of the unhandled consumer remove it, however many datagrams
   arrive in between and even if nobody else ever polls *)
Lemma patience_pos : 1 <= unhandled_patience.
Proof. unfold unhandled_patience. lia. Qed.
Definition quiet_label (l : label) : bool := match l with Put _ | Poll Unh => true | _ => false end.
Definition unh_polls (ls : list label) : nat := List.length (filter (fun l => match l with Poll Unh => true | _ => false end) ls).
Definition rank (s : st) : nat :=
  match uph s with O => S unhandled_patience | S n => if marked s then S n else S (S unhandled_patience) end.

Lemma head_leaves_when_polled ls : forall s x r,
  Inv s -> q s = x :: r -> forallb quiet_label ls = true -> rank s <= unh_polls ls ->
  ~ In (fst x) (map fst (q (run s ls))).
Proof.
  induction ls as [|l t IH]; intros s x r HI Hq Hl Hr.
  - unfold rank in Hr. cbn in Hr. destruct (uph s); [lia|]. destruct (marked s); lia.
  - cbn [forallb] in Hl. apply andb_prop in Hl. destruct Hl as [Hl Ht]. unfold run. cbn [fold_left]. fold (run (step s l) t).
    destruct l as [d|[|k]]; [| |discriminate].
    + (* an arrival: the head, the mark and the phase stay *)
      apply (IH (step s (Put d)) x (r ++ [(nextid s, d)])); [apply step_inv; exact HI|cbn; rewrite Hq; reflexivity|exact Ht|].
      unfold rank in *. cbn [step put uph marked]. unfold unh_polls in *. cbn [filter] in Hr. exact Hr.
    + (* a poll of the unhandled consumer: the head goes, or the rank drops *)
      assert (Hlt : fst x < nextid s).
      { destruct HI as [_ [B _]]. apply B. unfold ids. rewrite Hq. cbn. left. reflexivity. }
      assert (Hnd : ~ In (fst x) (map fst r)).
      { destruct HI as [N _]. unfold ids in N. rewrite Hq in N. cbn in N. inversion N as [|? ? Hn _]; subst. intros C. apply Hn. apply in_or_app. left. exact C. }
      unfold unh_polls in Hr. cbn [filter List.length] in Hr. fold (unh_polls t) in Hr.
      unfold rank in Hr. cbn [step]. destruct (uph s) as [|n] eqn:Eu.
      * rewrite Hq. apply (IH _ x r); [pose proof (step_inv s (Poll Unh) HI) as K; cbn [step] in K; rewrite Eu, Hq in K; exact K|reflexivity|exact Ht|].
        unfold rank. cbn [uph marked]. pose proof patience_pos as PP. destruct unhandled_patience; lia.
      * destruct (marked s) eqn:Em.
        -- destruct n as [|m].
           ++ unfold run. apply gone_forever; unfold pop_by; cbn [q]; rewrite Hq; destruct x as [i d]; cbn; [exact Hnd|exact Hlt].
           ++ apply (IH _ x r); [pose proof (step_inv s (Poll Unh) HI) as K; cbn [step] in K; rewrite Eu, Em in K; exact K|exact Hq|exact Ht|].
              unfold rank. cbn [uph marked]. rewrite ?Em. lia.
        -- apply (IH _ x r); [pose proof (step_inv s (Poll Unh) HI) as K; cbn [step] in K; rewrite Eu, Em in K; exact K|exact Hq|exact Ht|].
           unfold rank. cbn [uph marked]. lia.
Qed.

Theorem head_leaves_within_patience_plus_two_polls s x r ls :
  Inv s -> InvU s -> q s = x :: r -> forallb quiet_label ls = true -> unhandled_patience + 2 <= unh_polls ls ->
  ~ In (fst x) (map fst (q (run s ls))).
Proof.
  intros HI HU Hq Hl Hn. apply (head_leaves_when_polled ls s x r HI Hq Hl). unfold rank, InvU in *. destruct (uph s); [lia|]. destruct (marked s); lia.
Qed.
Theorem reachable_InvU ls : InvU (run init ls).
Proof. unfold run. assert (H : InvU init) by (unfold InvU, init; cbn; lia). revert H. generalize init. induction ls; simpl; intros; auto. apply IHls. now apply step_invU. Qed.

