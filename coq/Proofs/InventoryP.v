(* C12: the device inventory equals the output wiring, each device once, in table order, unique keys. *)
From Coq Require Import ZArith List Bool String Lia.
Require Import GV.Model.Accessor GV.Model.Inventory.
Import ListNotations.
Open Scope string_scope.

(* ---------- dedup ---------- *)
Lemma filter_id {A} (f : A -> bool) l : (forall x, In x l -> f x = true) -> filter f l = l.
Proof. induction l as [|x r IH]; intros H; [reflexivity|]. cbn. rewrite H by (left; auto). f_equal. apply IH. intros y Hy. apply H. right; auto. Qed.
Lemma filter_idem {A} (f : A -> bool) l : filter f (filter f l) = filter f l.
Proof. apply filter_id. intros x Hx. apply filter_In in Hx. tauto. Qed.

Lemma dedup_In x l : In x (dedup l) <-> In x l.
Proof. revert x. induction l as [|a r IH]; intros x; [tauto|]. cbn [dedup]. split.
  - intros [H|H]; [left; auto|]. apply filter_In in H. right. apply IH. tauto.
  - intros [H|H]; [left; auto|]. destruct (String.eqb a x) eqn:E; [apply String.eqb_eq in E; left; auto|].
    right. apply filter_In. split; [apply IH; auto|now rewrite E]. Qed.

Lemma dedup_repeat a n l : ~ In a l ->
  dedup (repeat a n ++ l) = match n with O => dedup l | S _ => a :: dedup l end.
Proof.
  intros Hn. assert (F : filter (fun y => negb (String.eqb a y)) (dedup l) = dedup l).
  { apply filter_id. intros y Hy. apply (proj1 (dedup_In _ _)) in Hy. destruct (String.eqb a y) eqn:E; [|reflexivity]. apply String.eqb_eq in E. rewrite <- E in Hy. exfalso. exact (Hn Hy). }
  induction n as [|m IH]; [reflexivity|]. cbn [repeat app dedup]. rewrite IH. destruct m.
  - now rewrite F.
  - cbn [filter]. rewrite String.eqb_refl. cbn [negb]. now rewrite F.
Qed.

Lemma flat_single {A} (p : A -> bool) (d : string) vs :
  flat_map (fun v => if p v then [d] else []) vs = repeat d (List.length (filter p vs)).
Proof. induction vs as [|v r IH]; [reflexivity|]. cbn [flat_map filter]. destruct (p v); cbn; now rewrite IH. Qed.

Definition wired (values : list string) (d : string) : bool := existsb (fun v => not_na v && prefix d v) values.

Lemma wired_count values d :
  wired values d = negb (Nat.eqb (List.length (filter (prefix d) (filter not_na values))) 0).
Proof. unfold wired. induction values as [|v r IH]; [reflexivity|]. cbn [existsb filter].
  destruct (not_na v); cbn [andb filter]; [|exact IH]. destruct (prefix d v); cbn; [reflexivity|exact IH]. Qed.

(* each wired device once, in all_devices order *)
Theorem actual_devices_spec all_devices values : NoDup all_devices ->
  actual_devices all_devices values = filter (wired values) all_devices.
Proof.
  unfold actual_devices, wired_raw. induction all_devices as [|a r IH]; intros Hnd; [reflexivity|].
  inversion Hnd as [|? ? Ha Hr]; subst. cbn [flat_map filter]. rewrite flat_single.
  rewrite dedup_repeat.
  - rewrite (IH Hr). rewrite wired_count. destruct (List.length (filter (prefix a) (filter not_na values))); reflexivity.
  - intros C. apply in_flat_map in C. destruct C as [d [Hd Hin]]. rewrite flat_single in Hin. apply repeat_spec in Hin. subst. contradiction.
Qed.

(* ---------- user demands ---------- *)
Definition demands_unique (demands : list string) : Prop := NoDup (map upper demands).

Lemma at_most_one d demands : demands_unique demands ->
  (List.length (filter (demand_matches d) demands) <= 1)%nat.
Proof.
  unfold demands_unique, demand_matches. induction demands as [|u r IH]; intros H; [cbn; lia|].
  cbn [map] in H. inversion H as [|? ? Hu Hr]; subst. cbn [filter]. destruct (String.eqb (upper ("Ud" ++ d)) (upper u)) eqn:E; [|apply IH; auto].
  apply String.eqb_eq in E. cbn [List.length].
  assert (Z : filter (fun ud => String.eqb (upper ("Ud" ++ d)) (upper ud)) r = []).
  { destruct (filter (fun ud => String.eqb (upper ("Ud" ++ d)) (upper ud)) r) as [|x t] eqn:F; [reflexivity|exfalso].
    assert (Hx : In x (x :: t)) by (left; auto). rewrite <- F in Hx. apply filter_In in Hx. destruct Hx as [Hin Hx].
    apply String.eqb_eq in Hx. apply Hu. rewrite <- E, Hx. apply in_map. exact Hin. }
  rewrite Z. cbn. lia.
Qed.


Theorem user_devices_fst devs demands : demands_unique demands ->
  map fst (user_devices devs demands) = filter (has_demand demands) devs.
Proof.
  intros Hu. unfold user_devices. induction devs as [|d r IH]; [reflexivity|]. cbn [flat_map filter]. rewrite map_app, IH.
  assert (E : map fst (flat_map (fun ud => if demand_matches d ud then [(d, ud)] else []) demands) = if has_demand demands d then [d] else []).
  { pose proof (at_most_one d demands Hu) as L. unfold has_demand. clear - L.
    induction demands as [|u t IHt]; [reflexivity|]. cbn [flat_map existsb filter] in *.
    destruct (demand_matches d u) eqn:E; cbn [orb app map fst].
    - cbn [List.length] in L. assert (Z : filter (demand_matches d) t = []) by (destruct (filter (demand_matches d) t); [reflexivity|cbn in L; lia]).
      assert (Z2 : flat_map (fun ud => if demand_matches d ud then [(d, ud)] else []) t = []).
      { clear - Z. induction t as [|x t IH]; [reflexivity|]. cbn [filter flat_map] in *. destruct (demand_matches d x); [discriminate|]. apply IH. exact Z. }
      rewrite Z2. reflexivity.
    - apply IHt. exact L. }
  rewrite E. destruct (has_demand demands d); reflexivity.
Qed.

Theorem user_devices_In devs demands d ud :
  In (d, ud) (user_devices devs demands) <-> In d devs /\ In ud demands /\ upper ("Ud" ++ d) = upper ud.
Proof.
  unfold user_devices. rewrite in_flat_map. split.
  - intros [x [Hx H]]. apply in_flat_map in H. destruct H as [u [Hu H]]. destruct (demand_matches x u) eqn:E; [|destruct H].
    destruct H as [H|[]]. inversion H; subst. unfold demand_matches in E. apply String.eqb_eq in E. auto.
  - intros [Hd [Hu E]]. exists d. split; [auto|]. apply in_flat_map. exists ud. split; [auto|].
    unfold demand_matches. rewrite E, String.eqb_refl. left. reflexivity.
Qed.

(* ---------- NoDup through filters ---------- *)
Lemma NoDup_filter {A} (f : A -> bool) l : NoDup l -> NoDup (filter f l).
Proof. induction 1 as [|x r Hx Hr IH]; cbn; [constructor|]. destruct (f x); [constructor; auto|auto].
  intros C. apply filter_In in C. tauto. Qed.
Lemma map_fst_filter_incl {A B} (f : A * B -> bool) l x : In x (map fst (filter f l)) -> In x (map fst l).
Proof. intros H. apply in_map_iff in H. destruct H as [p [E Hp]]. apply filter_In in Hp. apply in_map_iff. exists p. tauto. Qed.
Lemma NoDup_map_fst_filter {A B} (f : A * B -> bool) l : NoDup (map fst l) -> NoDup (map fst (filter f l)).
Proof. induction l as [|p r IH]; intros H; [constructor|]. cbn [map] in H. inversion H as [|? ? Hp Hr]; subst. cbn [filter].
  destruct (f p); cbn [map]; [constructor; auto|auto]. intros C. apply Hp. eapply map_fst_filter_incl; eauto. Qed.

Lemma NoDup_app_intro {A} (a b : list A) : NoDup a -> NoDup b -> (forall x, In x a -> ~ In x b) -> NoDup (a ++ b).
Proof. induction 1 as [|x r Hx Hr IH]; intros Hb Hd; [exact Hb|]. cbn. constructor.
  - intros C. apply in_app_or in C. destruct C as [C|C]; [contradiction|]. apply (Hd x); [left; auto|exact C].
  - apply IH; auto. intros y Hy. apply Hd. right; auto. Qed.

(* ---------- the three lists ---------- *)
Section Scan.
  Variable tbl : list (string * string * Z * string * dclass).
  Variables (all_devices demands values : list string).
  Hypothesis Hnd : NoDup all_devices.
  Hypothesis Hu : demands_unique demands.

  Let ud := user_devices (actual_devices all_devices values) demands.
  Let h := handled tbl ud.

  Lemma ud_fst_nodup : NoDup (map fst ud).
  Proof. unfold ud. rewrite user_devices_fst by exact Hu. apply NoDup_filter. rewrite actual_devices_spec by exact Hnd.
    apply NoDup_filter. exact Hnd. Qed.
  Lemma h_fst_nodup : NoDup (map fst h).
  Proof. unfold h, handled. apply NoDup_map_fst_filter. apply ud_fst_nodup. Qed.

  (* membership: exactly the devices that are in the device table, wired to some output, and have a user demand *)
  Theorem handled_spec d u : In (d, u) h <->
    In d all_devices /\ wired values d = true /\ In u demands /\ upper ("Ud" ++ d) = upper u /\ class_of tbl d <> None.
  Proof.
    unfold h, handled. rewrite filter_In. unfold ud. rewrite user_devices_In. rewrite actual_devices_spec by exact Hnd. rewrite filter_In.
    cbn [fst]. split.
    - intros [[[A B] [C D]] E]. repeat split; auto. destruct (class_of tbl d); [discriminate|discriminate].
    - intros [A [B [C [D E]]]]. repeat split; auto. destruct (class_of tbl d); [reflexivity|contradiction].
  Qed.

  Theorem class_lists_spec c d u : In (d, u) (of_class tbl c h) <-> In (d, u) h /\ class_of tbl d = Some c.
  Proof. unfold of_class. rewrite filter_In. cbn [fst]. split.
    - intros [A B]. split; auto. destruct (class_of tbl d) as [c'|]; [|discriminate]. destruct c, c'; try discriminate; reflexivity.
    - intros [A B]. split; auto. rewrite B. destruct c; reflexivity. Qed.

  (* order: every list is in all_devices order (it is a filter of a filter of all_devices on the device component) *)
  Theorem class_list_order c :
    map fst (of_class tbl c h) =
    filter (fun d => match class_of tbl d with Some c' => dclass_eqb c c' | None => false end)
           (filter (has_demand demands) (filter (wired values) all_devices)).
  Proof.
    unfold h, handled, of_class, ud. rewrite <- actual_devices_spec by exact Hnd. rewrite <- user_devices_fst by exact Hu.
    generalize (user_devices (actual_devices all_devices values) demands). intros l.
    induction l as [|[d u] r IH]; [reflexivity|]. cbn [filter map fst].
    destruct (class_of tbl d) as [c'|] eqn:E; cbn [filter map fst]; rewrite ?E.
    - destruct (dclass_eqb c c'); cbn [map fst]; now rewrite IH.
    - exact IH.
  Qed.

  (* user-device keys are pairwise distinct across pumps, blowers and lights *)
  Theorem user_keys_nodup :
    NoDup (map fst (of_class tbl CPUMP h) ++ map fst (of_class tbl CBLOWER h) ++ map fst (of_class tbl CLIGHT h)).
  Proof.
    assert (D : forall c1 c2 x, c1 <> c2 -> In x (map fst (of_class tbl c1 h)) -> ~ In x (map fst (of_class tbl c2 h))).
    { intros c1 c2 x Hc H1 H2. apply in_map_iff in H1. destruct H1 as [[d1 u1] [E1 H1]]. apply in_map_iff in H2. destruct H2 as [[d2 u2] [E2 H2]].
      cbn in E1, E2. subst. apply class_lists_spec in H1. apply class_lists_spec in H2. destruct H1 as [_ A]. destruct H2 as [_ B]. congruence. }
    apply NoDup_app_intro; [apply NoDup_map_fst_filter, h_fst_nodup| |].
    - apply NoDup_app_intro; [apply NoDup_map_fst_filter, h_fst_nodup|apply NoDup_map_fst_filter, h_fst_nodup|].
      intros x. apply D. discriminate.
    - intros x Hx C. apply in_app_or in C. destruct C as [C|C]; [revert C; apply (D CPUMP CBLOWER); [discriminate|exact Hx]|revert C; apply (D CPUMP CLIGHT); [discriminate|exact Hx]].
  Qed.
End Scan.

(* ---------- get_device ---------- *)
Lemma get_device_go_finds keys : forall k i j, NoDup keys -> nth_error keys i = Some k ->
  (fix go (n : nat) (l : list string) := match l with [] => None | x :: r => if String.eqb x k then Some n else go (S n) r end) j keys = Some (j + i)%nat.
Proof.
  induction keys as [|x r IH]; intros k i j Hn Hi; [destruct i; discriminate|]. inversion Hn as [|? ? Hx Hr]; subst.
  destruct i as [|i].
  - cbn in Hi. inversion Hi; subst. rewrite String.eqb_refl. f_equal. lia.
  - cbn [nth_error] in Hi. destruct (String.eqb x k) eqn:E.
    + apply String.eqb_eq in E. subst. exfalso. apply Hx. eapply nth_error_In; eauto.
    + rewrite (IH k i (S j) Hr Hi). f_equal. lia.
Qed.
Theorem get_device_finds keys k i : NoDup keys -> nth_error keys i = Some k -> get_device keys k = Some i.
Proof. intros Hn Hi. unfold get_device. rewrite (get_device_go_finds keys k i 0 Hn Hi). reflexivity. Qed.
