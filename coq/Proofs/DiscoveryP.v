(* C15: each spa once, fields intact, filter honoured, termination conditions - for every label list. *)
From Coq Require Import ZArith List Bool Lia.
Require Import GV.Model.Discovery.
Import ListNotations.
Open Scope Z_scope.

Section D.
  Variable c : cfg.

  Definition arrived (ls : list label) : list reply := flat_map (fun l => match l with Arrive r => [r] | _ => [] end) ls.

  (* invariant, relative to the replies that have arrived so far *)
  Definition Inv (arr : list reply) (s : dst) : Prop :=
    NoDup (seen s) /\ map r_id (spas s) = seen s /\
    (forall r, In r (spas s) -> In r arr) /\ (forall r, In r (queue s) -> In r arr) /\
    (forall want, f_id c = Some want -> forall r, In r (spas s) -> r_id r = want) /\
    (found s = true \/ pending s = true -> spas s <> []).

  Lemma mem_In x l : mem x l = true <-> In x l.
  Proof. unfold mem. rewrite existsb_exists. split; [intros [y [Hy E]]; apply Z.eqb_eq in E; now subst|intros H; exists x; split; [auto|apply Z.eqb_refl]]. Qed.

  Lemma nodup_snoc (x : Z) l : NoDup l -> ~ In x l -> NoDup (l ++ [x]).
  Proof. induction l as [|y r IH]; intros H Hn; cbn; [constructor; [intros []|constructor]|].
    inversion H as [|? ? Hy Hr]; subst. constructor.
    - intros C. apply in_app_or in C. destruct C as [C|[C|[]]]; [contradiction|]. subst. apply Hn. left. reflexivity.
    - apply IH; auto. intros C. apply Hn. right. exact C. Qed.

  Lemma on_discovered_inv arr s r : Inv arr s -> In r arr -> Inv arr (on_discovered c s r).
  Proof.
    intros [I1 [I2 [I3 [I4 [I5 I6]]]]] Hr. unfold on_discovered. destruct (mem (r_id r) (seen s)) eqn:M; [exact (conj I1 (conj I2 (conj I3 (conj I4 (conj I5 I6)))))|].
    assert (Hn : ~ In (r_id r) (seen s)) by (intros C; apply mem_In in C; congruence).
    destruct (f_id c) as [want|] eqn:F.
    - pose proof I5 as I5'. rewrite <- F in I5'.
      destruct (want =? r_id r) eqn:E; cbn [negb]; [|exact (conj I1 (conj I2 (conj I3 (conj I4 (conj I5' I6)))))]. apply Z.eqb_eq in E.
      unfold Inv; cbn. refine (conj _ (conj _ (conj _ (conj _ (conj _ _))))).
      + apply nodup_snoc; auto.
      + rewrite map_app, I2. reflexivity.
      + intros x Hx. apply in_app_or in Hx. destruct Hx as [Hx|[Hx|[]]]; [auto|subst; auto].
      + exact I4.
      + intros w Hw x Hx. apply in_app_or in Hx. destruct Hx as [Hx|[Hx|[]]]; [exact (I5' w Hw x Hx)|]. subst x. rewrite F in Hw. injection Hw as <-. lia.
      + intros _ C. destruct (spas s); discriminate.
    - unfold Inv; cbn. refine (conj _ (conj _ (conj _ (conj _ (conj _ _))))).
      + apply nodup_snoc; auto.
      + rewrite map_app, I2. reflexivity.
      + intros x Hx. apply in_app_or in Hx. destruct Hx as [Hx|[Hx|[]]]; [auto|subst; auto].
      + exact I4.
      + intros w Hw. rewrite F in Hw. discriminate.
      + intros _ C. destruct (spas s); discriminate.
  Qed.

  Lemma Inv_mono arr arr' s : (forall r, In r arr -> In r arr') -> Inv arr s -> Inv arr' s.
  Proof. intros H [I1 [I2 [I3 [I4 [I5 I6]]]]]. exact (conj I1 (conj I2 (conj (fun r Hr => H r (I3 r Hr)) (conj (fun r Hr => H r (I4 r Hr)) (conj I5 I6))))). Qed.

  Lemma step_inv arr s l : Inv arr s -> Inv (arr ++ arrived [l]) (step c s l).
  Proof.
    intros I. assert (I' : Inv (arr ++ arrived [l]) s) by (eapply Inv_mono; [|exact I]; intros r Hr; apply in_or_app; left; exact Hr).
    unfold step. destruct (finished s) eqn:Fin; [exact I'|]. destruct l as [r| | |age].
    - destruct I' as [I1 [I2 [I3 [I4 [I5 I6]]]]]. unfold Inv; cbn [queue seen spas found pending].
      refine (conj I1 (conj I2 (conj I3 (conj _ (conj I5 I6))))).
      intros x Hx. apply in_app_or in Hx. destruct Hx as [Hx|[Hx|[]]]; [auto|subst]. apply in_or_app. right. cbn. left. reflexivity.
    - destruct (queue s) as [|r q] eqn:Q; [exact I'|]. cbn [arrived flat_map] in *. rewrite app_nil_r in *.
      destruct I as [I1 [I2 [I3 [I4 [I5 I6]]]]]. apply on_discovered_inv.
      + unfold Inv; cbn [queue seen spas found pending]. refine (conj I1 (conj I2 (conj I3 (conj _ (conj I5 I6))))).
        intros x Hx. apply I4. rewrite Q. right. exact Hx.
      + apply I4. rewrite Q. left. reflexivity.
    - cbn [arrived flat_map] in *. rewrite app_nil_r in *. destruct I as [I1 [I2 [I3 [I4 [I5 I6]]]]].
      unfold Inv; cbn [queue seen spas found pending finished]. refine (conj I1 (conj I2 (conj I3 (conj I4 (conj I5 _))))).
      intros [H|H]; [|discriminate]. apply I6. apply orb_prop in H. tauto.
    - cbn [arrived flat_map] in *. rewrite app_nil_r in *. destruct I as [I1 [I2 [I3 [I4 [I5 I6]]]]].
      destruct (negb (age <? t_timeout c)); [exact (conj I1 (conj I2 (conj I3 (conj I4 (conj I5 I6)))))|].
      destruct ((t_initial c <? age) && negb (Nat.eqb (List.length (spas s)) 0)); [exact (conj I1 (conj I2 (conj I3 (conj I4 (conj I5 I6)))))|].
      destruct (found s) eqn:Fd; unfold Inv; cbn [queue seen spas found pending finished]; rewrite ?Fd;
        exact (conj I1 (conj I2 (conj I3 (conj I4 (conj I5 I6))))).
  Qed.

  Lemma arrived_app a b : arrived (a ++ b) = arrived a ++ arrived b.
  Proof. unfold arrived. apply flat_map_app. Qed.

  Theorem run_inv ls : forall arr s, Inv arr s -> Inv (arr ++ arrived ls) (run c s ls).
  Proof.
    induction ls as [|l r IH]; intros arr s I; cbn [run fold_left]; [cbn; rewrite app_nil_r; exact I|].
    change (l :: r) with ([l] ++ r). rewrite arrived_app, app_assoc. apply IH. apply step_inv. exact I.
  Qed.

  Lemma init_inv : Inv [] init.
  Proof. unfold Inv, init; cbn. repeat split; auto; try constructor; intros; try contradiction; try discriminate.
    match goal with H : _ \/ _ |- _ => destruct H; discriminate end. Qed.

  (* each listed spa once, its fields those of a reply that arrived, only the requested identifier when one is given *)
  Theorem discovery_safe ls : let s := run c init ls in
    NoDup (map r_id (spas s)) /\ (forall r, In r (spas s) -> In r (arrived ls)) /\
    (forall want, f_id c = Some want -> forall r, In r (spas s) -> r_id r = want).
  Proof. intros s. pose proof (run_inv ls [] init init_inv) as [I1 [I2 [I3 [_ [I5 _]]]]]. fold s in I1, I2, I3, I5.
    repeat split; auto. rewrite I2. exact I1. Qed.

  (* a consumed reply with a new identifier that passes the filter IS listed (completeness for processed replies) *)
  Theorem consumed_is_listed s r q : finished s = None -> queue s = r :: q -> ~ In (r_id r) (seen s) ->
    (forall want, f_id c = Some want -> want = r_id r) -> In r (spas (step c s Consume)).
  Proof.
    intros Hf Hq Hn Hw. unfold step. rewrite Hf, Hq. unfold on_discovered. cbn [seen].
    replace (mem (r_id r) (seen s)) with false by (symmetry; apply not_true_is_false; intros C; apply mem_In in C; contradiction).
    destruct (f_id c) as [want|] eqn:F.
    - rewrite (Hw want eq_refl), Z.eqb_refl. cbn. apply in_or_app. right. left. reflexivity.
    - cbn. apply in_or_app. right. left. reflexivity.
  Qed.

  (* termination: the main loop's poll leaves as soon as the requested spa has answered, after the initial wait once any spa
     has answered, and in every case once the timeout has passed; never otherwise *)
  Theorem main_poll_exits s age : finished s = None ->
    finished (step c s (MainPoll age)) =
      if negb (age <? t_timeout c) || ((t_initial c <? age) && negb (Nat.eqb (List.length (spas s)) 0)) || found s then Some age else None.
  Proof. intros Hf. unfold step. rewrite Hf. destruct (negb (age <? t_timeout c)); [reflexivity|].
    destruct ((t_initial c <? age) && negb (Nat.eqb (List.length (spas s)) 0)); [reflexivity|]. destruct (found s); [reflexivity|exact Hf]. Qed.

  (* a specifically requested spa (identifier or address given) that has been listed makes the first poll after the client's handler
     for it has returned leave the loop *)
  Theorem found_when_requested s r q : finished s = None -> queue s = r :: q -> ~ In (r_id r) (seen s) ->
    (f_addr c = true \/ f_id c = Some (r_id r)) -> (forall want, f_id c = Some want -> want = r_id r) ->
    forall age, finished (step c (step c (step c s Consume) HandlerDone) (MainPoll age)) = Some age.
  Proof.
    intros Hf Hq Hn Hreq Hw age. assert (Ff : pending (step c s Consume) = true /\ finished (step c s Consume) = None).
    { unfold step. rewrite Hf, Hq. unfold on_discovered. cbn [seen].
      replace (mem (r_id r) (seen s)) with false by (symmetry; apply not_true_is_false; intros C; apply mem_In in C; contradiction).
      destruct (f_id c) as [want|] eqn:F.
      - rewrite (Hw want eq_refl), Z.eqb_refl. cbn. auto.
      - cbn. destruct Hreq as [H|H]; [rewrite H, orb_true_r; auto|discriminate]. }
    destruct Ff as [F1 F2].
    assert (G : found (step c (step c s Consume) HandlerDone) = true /\ finished (step c (step c s Consume) HandlerDone) = None).
    { unfold step at 1 3. rewrite F2. cbn [found finished]. rewrite F1, orb_true_r. auto. }
    destruct G as [G1 G2]. rewrite (main_poll_exits _ age G2), G1. now rewrite orb_true_r.
  Qed.

  (* nothing but that handler's return sets the flag: without it the poll does not leave early *)
  Theorem not_found_before_handler_returns s : finished s = None -> found s = false -> found (step c s Consume) = false.
  Proof.
    intros Hf Hn. unfold step. rewrite Hf. destruct (queue s) as [|r q]; [exact Hn|]. unfold on_discovered. cbn [seen found].
    destruct (mem (r_id r) (seen s)); [exact Hn|]. destruct (f_id c) as [want|]; [destruct (negb (want =? r_id r)); exact Hn|exact Hn].
  Qed.

  (* after the return nothing has any effect: no late listing, no double close *)
  Theorem finished_is_final s l t : finished s = Some t -> step c s l = s.
  Proof. intros H. unfold step. now rewrite H. Qed.
End D.

(* ---------- what the list can hold: never more spas than the consumer has taken datagrams (finding K14) ---------- *)
Definition is_consume (l : label) : nat := match l with Consume => 1%nat | _ => 0%nat end.
Fixpoint consumes (ls : list label) : nat := match ls with [] => 0%nat | l :: r => (is_consume l + consumes r)%nat end.

Lemma on_discovered_len c s r : (List.length (spas (on_discovered c s r)) <= S (List.length (spas s)))%nat.
Proof.
  unfold on_discovered. destruct (mem (r_id r) (seen s)); [lia|].
  destruct (f_id c) as [w|].
  - destruct (negb (w =? r_id r)); cbn [spas]; [lia|]. rewrite app_length. cbn. lia.
  - cbn [spas]. rewrite app_length. cbn. lia.
Qed.

Lemma step_len c s l : (List.length (spas (step c s l)) <= List.length (spas s) + is_consume l)%nat.
Proof.
  unfold step. destruct (finished s); [lia|].
  destruct l as [r| | |age]; cbn [is_consume spas]; try lia.
  - destruct (queue s) as [|r q]; [lia|]. pose proof (on_discovered_len c (mkD q (seen s) (spas s) (found s) (pending s) None) r) as H. cbn [spas] in H. lia.
  - destruct (negb (age <? t_timeout c)); cbn [spas]; [lia|].
    destruct ((t_initial c <? age) && negb (Nat.eqb (List.length (spas s)) 0)); cbn [spas]; [lia|].
    destruct (found s); cbn [spas]; lia.
Qed.

Lemma run_len c ls : forall s, (List.length (spas (run c s ls)) <= List.length (spas s) + consumes ls)%nat.
Proof.
  unfold run. induction ls as [|l r IH]; intros s; cbn [fold_left consumes]; [lia|].
  specialize (IH (step c s l)). pose proof (step_len c s l). lia.
Qed.

(* whatever arrives: the list never holds more spas than the consumer has taken datagrams *)
Theorem listed_le_consumed c ls : (List.length (spas (run c init ls)) <= consumes ls)%nat.
Proof. pose proof (run_len c ls init) as H. cbn [init spas List.length] in H. lia. Qed.

(* K14: three spas answer at once, the consumer has taken one datagram when the initial wait is over: discover() returns with one spa
   listed and the replies of the two others still in the receive queue *)
Example k14_shape :
  let s := run (mkCfg None false 4000 10000) init [Arrive (mkR 1 1 1); Arrive (mkR 2 2 2); Arrive (mkR 3 3 3); Consume; MainPoll 4001] in
  finished s = Some 4001 /\ List.length (spas s) = 1%nat /\ map r_id (queue s) = [2; 3].
Proof. vm_compute. repeat split; reflexivity. Qed.

