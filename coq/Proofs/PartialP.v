(* C05: partial updates applied exactly once, in arrival order, each acknowledged once. *)
From Coq Require Import ZArith List Bool Lia.
Require Import GV.Lib.Bytes GV.Model.Wire GV.Model.Partial GV.Gen.Counter GV.Proofs.WireP GV.Proofs.CounterP.
Import ListNotations.
Open Scope Z_scope.

Definition wf_upd (u : upd) : Prop :=
  match u with
  | URefresh _ _ => True
  | UPartial cs => Forall (fun ch => List.length (snd ch) = 2%nat) cs \/ (exists p x, cs = [(p, [x])])
  end.

Lemma parse_of_dec rem : forall n i cs, dec_changes n i rem = Some cs -> parse_changes n i rem = (cs, true).
Proof. induction n as [|k IH]; intros i cs H; cbn [dec_changes parse_changes] in *; [inversion H; reflexivity|].
  destruct (slice rem (1 + 4 * i) 2) as [|h [|l [|? ?]]]; try discriminate.
  destruct (dec_changes k (S i) rem) as [r|] eqn:E; [|discriminate]. inversion H; subst. rewrite (IH _ _ E). reflexivity. Qed.

(* shape of a well-formed partial-update datagram *)
Lemma statp_shape cs d : wf_upd (UPartial cs) -> encode (Statp cs) = Some d ->
  exists c body, d = V_STATP ++ c :: body /\ parse_changes (Z.to_nat c) 0 (c :: body) = (cs, true).
Proof.
  intros Hw H. cbn [encode] in H. apply ocat_cons in H. destruct H as [a [r [Ha [H ->]]]]. inversion Ha; subst a.
  apply ocat_cons in H. destruct H as [a [r' [Ha' [H ->]]]]. apply u8_some in Ha'. destruct Ha' as [-> Hc].
  destruct (ocat_changes _ _ H) as [-> HF].
  exists (Z.of_nat (List.length cs)), (concat (map enc_change_body cs)). split; [reflexivity|].
  rewrite Nat2Z.id. apply parse_of_dec. destruct Hw as [Hw|[p [x ->]]].
  - apply (dec_changes_ok cs _ [] 0); [reflexivity|]. rewrite Forall_forall in *. intros y Hy. split; auto.
  - inversion HF as [|? ? Hp _]; subst. cbn [fst] in Hp. cbn [map concat enc_change_body fst snd app List.length dec_changes].
    cbn [slice skipn firstn Nat.add Nat.mul]. pose proof (Z.div_mod p 256 ltac:(lia)) as D.
    replace (p / 256 * 256 + p mod 256) with p by lia. reflexivity.
Qed.

Definition ctr_ok (c : Z * Z) : Prop := exists n m, 0 <= n /\ 0 <= m /\ c = (spec_p n, spec_c m).

Lemma next_ok async c : ctr_ok c ->
  let '(c', seq) := nxt async false c in
  ctr_ok c' /\ 1 <= seq <= 191 /\ (exists n m, 0 <= n /\ 0 <= m /\ c = (spec_p n, spec_c m) /\ seq = spec_p (n + 1)).
Proof.
  intros [n [m [Hn [Hm ->]]]]. unfold nxt. destruct async.
  - rewrite async_next_p by lia. split; [exists (n + 1), m; repeat split; auto; lia|]. split; [apply spec_p_range; lia|].
    exists n, m. auto.
  - rewrite sync_next_p by lia. split; [exists (n + 1), m; repeat split; auto; lia|]. split; [apply spec_p_range; lia|].
    exists n, m. auto.
Qed.

(* one well-formed event *)
Lemma step_spec async s u e :
  wf_upd u -> ev_of u = Some e -> ctr_ok (p_ctr s) -> (async = false -> p_changes s = []) ->
  let '(s', acks) := step async s e in
  p_blk s' = apply_upd (p_blk s) u /\ ctr_ok (p_ctr s') /\ (async = false -> p_changes s' = []) /\
  match u with
  | URefresh _ _ => acks = [] /\ p_ctr s' = p_ctr s
  | UPartial _ => exists seq, acks = [V_STATQ ++ [seq]] /\ 1 <= seq <= 191 /\
                              (seq, p_ctr s') = (snd (nxt async false (p_ctr s)),
                                                fst (nxt async false (p_ctr s)))
  end.
Proof.
  intros Hw He Hc Hch. destruct u as [st d|cs]; cbn [ev_of] in He.
  - inversion He; subst. cbn [step p_blk p_ctr p_changes apply_upd]. repeat split; auto.
  - destruct (encode (Statp cs)) as [d|] eqn:E; [|discriminate]. cbn in He. inversion He; subst e.
    destruct (statp_shape cs d Hw E) as [c [body [-> Hp]]].
    cbn [step]. rewrite starts_with_app. rewrite (skipn_app_exact V_STATP (c :: body) 5 eq_refl).
    pose proof (next_ok async (p_ctr s) Hc) as N.
    destruct (nxt async false (p_ctr s)) as [c' seq] eqn:En.
    destruct N as [Hc' [Hr _]].
    assert (Hack : encode (Statq seq) = Some (V_STATQ ++ [seq])).
    { cbn [encode ocat]. unfold u8. replace ((0 <=? seq) && (seq <? 256)) with true
        by (symmetry; apply andb_true_intro; split; [apply Z.leb_le|apply Z.ltb_lt]; lia). reflexivity. }
    rewrite Hack, Hp. destruct async.
    + cbn [p_blk p_ctr p_changes apply_upd]. repeat split; auto; try discriminate. exists seq. auto.
    + rewrite (Hch eq_refl). cbn [app p_blk p_ctr p_changes apply_upd]. repeat split; auto. exists seq. auto.
Qed.

(* any history *)
Theorem history_is_fold async : forall us es s,
  Forall wf_upd us -> Forall2 (fun u e => ev_of u = Some e) us es ->
  ctr_ok (p_ctr s) -> (async = false -> p_changes s = []) ->
  let '(s', ackss, blks) := Partial.run async s es in
  p_blk s' = fold_left apply_upd us (p_blk s) /\
  List.length ackss = List.length us /\
  Forall2 (fun u acks => match u with
                         | URefresh _ _ => acks = []
                         | UPartial _ => exists seq, acks = [V_STATQ ++ [seq]] /\ 1 <= seq <= 191 end) us ackss.
Proof.
  induction us as [|u r IH]; intros es s HF H2 Hc Hch.
  - inversion H2; subst. cbn. auto.
  - inversion H2 as [|? e ? r' He H2']; subst. inversion HF as [|? ? Hw HF']; subst.
    cbn [Partial.run]. pose proof (step_spec async s u e Hw He Hc Hch) as S.
    destruct (step async s e) as [s1 acks]. destruct S as [Sb [Sc [Sch Sa]]].
    specialize (IH r' s1 HF' H2' Sc Sch). destruct (Partial.run async s1 r') as [[s2 ackss] blks].
    destruct IH as [Ib [Il If]]. cbn [fold_left]. rewrite <- Sb. repeat split; auto.
    + cbn. lia.
    + constructor; auto. destruct u; [tauto|]. destruct Sa as [seq [A [B _]]]. eauto.
Qed.

(* the acknowledgement numbers are consecutive values of the protocol counter *)
Theorem acks_consecutive async s u1 e1 u2 e2 cs1 cs2 :
  u1 = UPartial cs1 -> u2 = UPartial cs2 -> wf_upd u1 -> wf_upd u2 -> ev_of u1 = Some e1 -> ev_of u2 = Some e2 ->
  ctr_ok (p_ctr s) -> (async = false -> p_changes s = []) ->
  let '(s1, a1) := step async s e1 in let '(s2, a2) := step async s1 e2 in
  exists q1 q2, a1 = [V_STATQ ++ [q1]] /\ a2 = [V_STATQ ++ [q2]] /\ q2 = (if q1 =? 191 then 1 else q1 + 1).
Proof.
  intros -> -> W1 W2 E1 E2 Hc Hch.
  pose proof (step_spec async s _ e1 W1 E1 Hc Hch) as S1. destruct (step async s e1) as [s1 a1].
  destruct S1 as [_ [Hc1 [Hch1 [q1 [A1 [R1 N1]]]]]].
  pose proof (step_spec async s1 _ e2 W2 E2 Hc1 Hch1) as S2. destruct (step async s1 e2) as [s2 a2].
  destruct S2 as [_ [_ [_ [q2 [A2 [R2 N2]]]]]].
  exists q1, q2. repeat split; auto.
  destruct Hc as [n [m [Hn [Hm Hs]]]]. rewrite Hs in N1.
  assert (Q1 : q1 = spec_p (n + 1) /\ p_ctr s1 = (spec_p (n + 1), spec_c m)).
  { unfold nxt in N1. destruct async; [rewrite async_next_p in N1 by lia|rewrite sync_next_p in N1 by lia]; cbn in N1; inversion N1; auto. }
  destruct Q1 as [-> Hs1]. rewrite Hs1 in N2.
  assert (Q2 : q2 = spec_p (n + 1 + 1)).
  { unfold nxt in N2. destruct async; [rewrite async_next_p in N2 by lia|rewrite sync_next_p in N2 by lia]; cbn in N2; inversion N2; auto. }
  rewrite Q2. apply spec_p_succ. lia.
Qed.
