(* C03: change notifications fire exactly once, iff the decoded value changed. *)
From Coq Require Import ZArith List Bool String Lia.
Require Import GV.Lib.Bytes GV.Model.Accessor GV.Model.AccessorChk GV.Model.Notify.
Import ListNotations.
Open Scope Z_scope.

Lemma value_eqb_eq a b : value_eqb a b = true <-> a = b.
Proof. destruct a, b; cbn; split; intros H; try discriminate; try (inversion H; subst).
  - apply Z.eqb_eq in H. now subst. - apply Z.eqb_refl.
  - apply Bool.eqb_prop in H. now subst. - apply Bool.eqb_reflx.
  - apply String.eqb_eq in H. now subst. - apply String.eqb_refl.
  - apply andb_prop in H. destruct H as [A B]. apply Z.eqb_eq in A, B. now subst.
  - now rewrite !Z.eqb_refl.
Qed.

(* ---------- the range filter is sound ---------- *)
Lemma slice_splice_disjoint b off sg p l :
  (off + List.length sg <= List.length b)%nat -> (p + l <= off \/ off + List.length sg <= p)%nat ->
  slice (splice b off sg) p l = slice b p l.
Proof.
  intros Hin Hd. apply (nth_ext_len _ _ 0).
  - unfold slice. rewrite !firstn_length, !skipn_length. rewrite splice_length by lia. reflexivity.
  - intros i Hi. unfold slice in Hi. rewrite firstn_length in Hi.
    rewrite !slice_nth by lia.
    destruct Hd as [Hd|Hd].
    + apply splice_nth_before; lia.
    + apply splice_nth_after; lia.
Qed.

Theorem range_miss_value_same a blk off seg :
  0 <= off -> 0 <= a_pos a -> 0 < a_len a ->
  (Z.to_nat off + List.length seg <= List.length blk)%nat ->
  intersects off (Z.of_nat (List.length seg)) a = false ->
  get_value a (splice blk (Z.to_nat off) seg) = get_value a blk.
Proof.
  intros Ho Hp Hl Hin Hx. unfold intersects in Hx. apply Z.ltb_ge in Hx.
  destruct seg as [|x seg'] eqn:Es.
  - unfold splice. cbn [List.length app]. rewrite Nat.add_0_r, firstn_skipn. reflexivity.
  - rewrite <- Es in *. assert (Hlen : (0 < List.length seg)%nat) by (rewrite Es; cbn; lia).
    unfold get_value, raw_get, field. rewrite slice_splice_disjoint; [reflexivity|lia|]. lia.
Qed.

(* ---------- counting callbacks ---------- *)
Definition is_cb (i : nat) (ob : Z) (c : callback) : bool :=
  let '(j, o, _, _) := c in Nat.eqb j i && (o =? ob).
Definition cb_count (i : nat) (ob : Z) (cbs : list callback) : nat := List.length (filter (is_cb i ob) cbs).
Definition occ (ob : Z) (obs : list Z) : nat := List.length (filter (Z.eqb ob) obs).

Lemma cb_count_app i ob a b : cb_count i ob (a ++ b) = (cb_count i ob a + cb_count i ob b)%nat.
Proof. unfold cb_count. now rewrite filter_app, app_length. Qed.

Lemma cb_count_map i ob j o n obs :
  cb_count i ob (map (fun x => (j, x, o, n)) obs) = if Nat.eqb j i then occ ob obs else 0%nat.
Proof. unfold cb_count, occ. induction obs as [|x r IH]; cbn [map filter is_cb].
  - destruct (Nat.eqb j i); reflexivity.
  - destruct (Nat.eqb j i) eqn:E; cbn [andb].
    + rewrite (Z.eqb_sym ob x). destruct (x =? ob); cbn [List.length]; rewrite IH; reflexivity.
    + exact IH.
Qed.

(* what one item contributes *)
Definition changed (a : acc) (prev new : list Z) : bool :=
  match get_value a prev, get_value a new with Some o, Some n => negb (value_eqb o n) | _, _ => false end.

Lemma notify_one_count prev new off len j w i ob :
  cb_count i ob (notify_one prev new off len j w) =
    if Nat.eqb j i && intersects off len (w_acc w) && changed (w_acc w) prev new then occ ob (w_obs w) else 0%nat.
Proof.
  unfold notify_one, changed. destruct (intersects off len (w_acc w)); [|rewrite andb_false_r; reflexivity].
  destruct (get_value (w_acc w) prev) as [o|]; [|rewrite andb_false_r; reflexivity].
  destruct (get_value (w_acc w) new) as [n|]; [|rewrite andb_false_r; reflexivity].
  destruct (value_eqb o n); cbn [negb]; [rewrite andb_false_r; reflexivity|].
  rewrite cb_count_map. destruct (Nat.eqb j i); reflexivity.
Qed.

Lemma notify_all_count prev new off len ws : forall k i ob,
  cb_count i ob (notify_all prev new off len k ws) =
    if Nat.leb k i then
      match nth_error ws (i - k) with
      | Some w => if intersects off len (w_acc w) && changed (w_acc w) prev new then occ ob (w_obs w) else 0%nat
      | None => 0%nat end
    else 0%nat.
Proof.
  induction ws as [|w r IH]; intros k i ob; cbn [notify_all].
  - destruct (Nat.leb k i); [destruct (i - k)%nat; reflexivity|reflexivity].
  - rewrite cb_count_app, notify_one_count, IH.
    destruct (Nat.leb k i) eqn:Ek.
    + apply Nat.leb_le in Ek. destruct (Nat.eqb k i) eqn:Ei.
      * apply Nat.eqb_eq in Ei. subst k. rewrite Nat.sub_diag. cbn [nth_error andb].
        replace (Nat.leb (S i) i) with false by (symmetry; apply Nat.leb_gt; lia). lia.
      * apply Nat.eqb_neq in Ei. cbn [andb].
        replace (Nat.leb (S k) i) with true by (symmetry; apply Nat.leb_le; lia).
        replace (i - k)%nat with (S (i - S k)) by lia. cbn [nth_error]. reflexivity.
    + apply Nat.leb_gt in Ek.
      replace (Nat.eqb k i) with false by (symmetry; apply Nat.eqb_neq; lia).
      replace (Nat.leb (S k) i) with false by (symmetry; apply Nat.leb_gt; lia). reflexivity.
Qed.

Lemma occ_nodup ob obs : NoDup obs -> occ ob obs = if existsb (Z.eqb ob) obs then 1%nat else 0%nat.
Proof. unfold occ. induction obs as [|x r IH]; intros H; [reflexivity|]. inversion H as [|? ? Hn Hr]; subst.
  cbn [filter existsb]. destruct (ob =? x) eqn:E; cbn [orb List.length].
  - apply Z.eqb_eq in E. subst x. rewrite (IH Hr).
    replace (existsb (Z.eqb ob) r) with false; [reflexivity|].
    symmetry. apply not_true_is_false. intros C. apply existsb_exists in C. destruct C as [y [Hy Ey]].
    apply Z.eqb_eq in Ey. subst. contradiction.
  - apply IH. exact Hr.
Qed.

(* callbacks carry the decoded old and new values, and go to registered observers only *)
Lemma notify_all_in prev new off len ws : forall k i ob o n,
  In (i, ob, o, n) (notify_all prev new off len k ws) ->
  exists w, (k <= i)%nat /\ nth_error ws (i - k) = Some w /\ In ob (w_obs w) /\
            get_value (w_acc w) prev = Some o /\ get_value (w_acc w) new = Some n /\ o <> n /\
            intersects off len (w_acc w) = true.
Proof.
  induction ws as [|w r IH]; intros k i ob o n H; [destruct H|]. cbn [notify_all] in H. apply in_app_or in H. destruct H as [H|H].
  - unfold notify_one in H. destruct (intersects off len (w_acc w)) eqn:Ex; [|destruct H].
    destruct (get_value (w_acc w) prev) as [o'|] eqn:Eo; [|destruct H].
    destruct (get_value (w_acc w) new) as [n'|] eqn:En; [|destruct H].
    destruct (value_eqb o' n') eqn:Ev; [destruct H|]. apply in_map_iff in H. destruct H as [x [Hx Hin]].
    inversion Hx; subst. exists w. rewrite Nat.sub_diag. repeat split; auto.
    intros C. subst. rewrite (proj2 (value_eqb_eq n n) eq_refl) in Ev. discriminate.
  - destruct (IH (S k) i ob o n H) as [w' [Hk [Hn R]]]. exists w'. split; [lia|]. split; [|exact R].
    replace (i - k)%nat with (S (i - S k)) by lia. exact Hn.
Qed.

(* ---------- main statement for one update ---------- *)
Theorem update_exactly_once blk off seg ws i w ob :
  nth_error ws i = Some w -> NoDup (w_obs w) -> In ob (w_obs w) ->
  0 <= off -> 0 <= a_pos (w_acc w) -> 0 < a_len (w_acc w) ->
  (Z.to_nat off + List.length seg <= List.length blk)%nat ->
  forall o n, get_value (w_acc w) blk = Some o ->
              get_value (w_acc w) (fst (update blk off seg ws)) = Some n ->
  let cbs := snd (update blk off seg ws) in
  (o <> n -> cb_count i ob cbs = 1%nat /\ In (i, ob, o, n) cbs) /\
  (o = n -> cb_count i ob cbs = 0%nat) /\
  (forall o' n', In (i, ob, o', n') cbs -> o' = o /\ n' = n).
Proof.
  intros Hi Hnd Hin Ho Hp Hl Hseg o n Hgo Hgn cbs.
  unfold update in *. cbn [fst snd] in *. set (new := splice blk (Z.to_nat off) seg) in *.
  set (len := Z.of_nat (List.length seg)) in *.
  assert (Hc : cb_count i ob cbs = if intersects off len (w_acc w) && changed (w_acc w) blk new then 1%nat else 0%nat).
  { unfold cbs. rewrite notify_all_count. cbn [Nat.leb]. rewrite Nat.sub_0_r, Hi. rewrite (occ_nodup _ _ Hnd).
    replace (existsb (Z.eqb ob) (w_obs w)) with true; [reflexivity|].
    symmetry. apply existsb_exists. exists ob. split; [exact Hin|apply Z.eqb_refl]. }
  assert (Hch : changed (w_acc w) blk new = negb (value_eqb o n)) by (unfold changed; rewrite Hgo, Hgn; reflexivity).
  split; [|split].
  - intros Hne.
    assert (Hv : value_eqb o n = false) by (apply not_true_is_false; intros C; apply value_eqb_eq in C; contradiction).
    assert (Ex : intersects off len (w_acc w) = true).
    { destruct (intersects off len (w_acc w)) eqn:Ex; [reflexivity|]. exfalso.
      pose proof (range_miss_value_same (w_acc w) blk off seg Ho Hp Hl Hseg Ex) as Hs. fold new in Hs. congruence. }
    split.
    + rewrite Hc, Hch, Hv, Ex. reflexivity.
    + unfold cbs. clear Hc Hch cbs.
      assert (G : forall ws k j, nth_error ws j = Some w -> In (k + j, ob, o, n)%nat (notify_all blk new off len k ws)).
      { clear ws Hi. induction ws as [|w0 r IH]; intros k0 j Hj; [destruct j; discriminate|]. cbn [notify_all]. apply in_or_app.
        destruct j as [|j].
        - cbn in Hj. inversion Hj; subst w0. left. unfold notify_one. rewrite Ex, Hgo, Hgn, Hv.
          apply in_map_iff. exists ob. rewrite Nat.add_0_r. split; [reflexivity|exact Hin].
        - right. replace (k0 + S j)%nat with (S k0 + j)%nat by lia. apply IH. exact Hj. }
      exact (G ws O i Hi).
  - intros Heq. rewrite Hc, Hch. subst. rewrite (proj2 (value_eqb_eq n n) eq_refl). cbn [negb]. now rewrite andb_false_r.
  - intros o' n' H. unfold cbs in H.
    destruct (notify_all_in _ _ _ _ _ _ _ _ _ _ H) as [w' [_ [Hn [_ [A [B _]]]]]]. rewrite Nat.sub_0_r, Hi in Hn. inversion Hn; subst w'.
    split; congruence.
Qed.

(* callbacks reach registered observers only *)
Theorem callbacks_only_registered blk off seg ws i ob o n :
  In (i, ob, o, n) (snd (update blk off seg ws)) -> exists w, nth_error ws i = Some w /\ In ob (w_obs w).
Proof. unfold update. cbn [snd]. intros H. destruct (notify_all_in _ _ _ _ _ _ _ _ _ _ H) as [w [_ [Hn [Hin _]]]].
  rewrite Nat.sub_0_r in Hn. eauto. Qed.

(* every callback is told the value that the installed (new) block decodes to *)
Theorem callbacks_see_new_block blk off seg ws i ob o n :
  In (i, ob, o, n) (snd (update blk off seg ws)) ->
  exists w, nth_error ws i = Some w /\ get_value (w_acc w) (fst (update blk off seg ws)) = Some n /\ get_value (w_acc w) blk = Some o.
Proof. unfold update. cbn [fst snd]. intros H. destruct (notify_all_in _ _ _ _ _ _ _ _ _ _ H) as [w [_ [Hn [_ [A [B _]]]]]].
  rewrite Nat.sub_0_r in Hn. eauto. Qed.

(* ---------- registry ---------- *)
Lemma nodup_snoc (x : Z) l : NoDup l -> ~ In x l -> NoDup (l ++ [x]).
Proof. induction l as [|y r IH]; intros H Hn; cbn; [constructor; [intros []|constructor]|].
  inversion H as [|? ? Hy Hr]; subst. constructor.
  - intros C. apply in_app_or in C. destruct C as [C|[C|[]]]; [contradiction|]. subst. apply Hn. left. reflexivity.
  - apply IH; auto. intros C. apply Hn. right. exact C. Qed.
Lemma watch_nodup ob obs : NoDup obs -> NoDup (watch ob obs).
Proof. intros H. unfold watch. destruct (existsb (Z.eqb ob) obs) eqn:E; [exact H|].
  apply nodup_snoc; auto. intros C.
  assert (existsb (Z.eqb ob) obs = true) by (apply existsb_exists; exists ob; split; [auto|apply Z.eqb_refl]). congruence. Qed.
Lemma remove_first_in ob obs x : In x (remove_first ob obs) -> In x obs.
Proof. induction obs as [|y r IH]; [intros []|]. cbn [remove_first]. destruct (y =? ob); intros H; [right; auto|].
  destruct H; [left; auto|right; auto]. Qed.
Lemma remove_first_nodup ob obs : NoDup obs -> NoDup (remove_first ob obs) /\ ~ In ob (remove_first ob obs).
Proof. induction obs as [|y r IH]; intros H; [split; [constructor|intros []]|]. inversion H as [|? ? Hn Hr]; subst.
  cbn [remove_first]. destruct (y =? ob) eqn:E.
  - apply Z.eqb_eq in E. subst. auto.
  - destruct (IH Hr) as [A B]. split.
    + constructor; auto. intros C. apply Hn. eapply remove_first_in; eauto.
    + intros [C|C]; [subst; rewrite Z.eqb_refl in E; discriminate|auto].
Qed.
Lemma watch_once ob obs : NoDup obs -> occ ob (watch ob obs) = 1%nat.
Proof. intros H. rewrite occ_nodup by (apply watch_nodup; exact H). unfold watch.
  destruct (existsb (Z.eqb ob) obs) eqn:E; [rewrite E; reflexivity|].
  rewrite existsb_app. cbn. rewrite Z.eqb_refl. now rewrite orb_true_r. Qed.

Definition Inv (s : st) : Prop := Forall (fun w => NoDup (w_obs w)) (items s).

Lemma map_nth_forall {A} (P : A -> Prop) f i l : Forall P l -> (forall x, P x -> P (f x)) -> Forall P (map_nth f i l).
Proof. intros H Hf. revert i. induction H as [|x r Hx Hr IH]; intros i; [destruct i; constructor|].
  destruct i; cbn; constructor; auto. Qed.

Lemma step_inv s o : Inv s -> Inv (fst (step s o)).
Proof.
  unfold Inv. intros H. destruct o as [i ob|i ob|i|off seg]; cbn [step fst items].
  - apply map_nth_forall; auto. intros w Hw. apply watch_nodup. exact Hw.
  - apply map_nth_forall; auto. intros w Hw. apply remove_first_nodup. exact Hw.
  - apply map_nth_forall; auto. intros w Hw. constructor.
  - destruct (update (blk s) off seg (items s)). exact H.
Qed.

Theorem registry_inv ops : forall s, Inv s -> Inv (fst (run s ops)).
Proof. induction ops as [|o r IH]; intros s H; [exact H|]. cbn [run].
  destruct (step s o) as [s1 c] eqn:E. pose proof (step_inv s o H) as H1. rewrite E in H1. cbn [fst] in H1.
  specialize (IH s1 H1). destruct (run s1 r). exact IH. Qed.

Lemma map_nth_nth {A} (f : A -> A) i l : nth_error (map_nth f i l) i = option_map f (nth_error l i).
Proof. revert i. induction l as [|x r IH]; intros i; destruct i; cbn; auto. Qed.

(* an unwatched observer is gone (and can therefore never be called again until re-registered) *)
Theorem unwatch_removes s i ob w : Inv s -> nth_error (items (fst (step s (Unwatch i ob))) ) i = Some w -> ~ In ob (w_obs w).
Proof. unfold Inv. intros H Hn. cbn [step fst items] in Hn. rewrite map_nth_nth in Hn.
  destruct (nth_error (items s) i) as [w0|] eqn:E; [|discriminate]. cbn in Hn. inversion Hn; subst. cbn.
  rewrite Forall_forall in H. apply remove_first_nodup. apply H. eapply nth_error_In; eauto. Qed.
Theorem unwatch_all_removes s i w : nth_error (items (fst (step s (UnwatchAll i)))) i = Some w -> w_obs w = [].
Proof. cbn [step fst items]. rewrite map_nth_nth. destruct (nth_error (items s) i); [|discriminate]. cbn. intros H. inversion H. reflexivity. Qed.
