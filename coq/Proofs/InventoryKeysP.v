(* C12: key uniqueness over the generated constant tables and the shipped log tables. *)
From Coq Require Import ZArith List Bool String Lia.
Require Import GV.Model.Accessor GV.Model.TableWf GV.Model.Inventory GV.Proofs.InventoryP GV.Gen.InventoryTables GV.Gen.AllTables.
Import ListNotations.
Open Scope string_scope.
Open Scope list_scope.

Definition device_keys : list string := map (fun d => fst (fst (fst (fst d)))) devices_table.
Definition master_keys : list string := device_keys ++ map snd sensors_table ++ map snd binary_sensors_table ++ fixed_keys.
Lemma master_nodup : nodup_str master_keys = true.
Proof. vm_compute. reflexivity. Qed.

Lemma nodup_str_NoDup l : nodup_str l = true -> NoDup l.
Proof. induction l as [|x r IH]; intros H; [constructor|]. cbn in H. apply andb_prop in H. destruct H as [A B]. constructor; auto.
  intros C. apply negb_true_iff in A. assert (mem_str x r = true); [|congruence].
  unfold mem_str. apply existsb_exists. exists x. split; [auto|apply String.eqb_refl]. Qed.

Lemma NoDup_app_l {T} (a b : list T) : NoDup (a ++ b) -> NoDup a /\ NoDup b /\ forall x, In x a -> ~ In x b.
Proof. induction a as [|x r IH]; intros H; [repeat split; auto; constructor|]. cbn in H. inversion H as [|? ? Hx Hr]; subst.
  destruct (IH Hr) as [Ha [Hb Hc]]. repeat split; auto.
  - constructor; auto. intros D. apply Hx. apply in_or_app. left; auto.
  - intros y [Hy|Hy] D; [subst; apply Hx; apply in_or_app; right; auto|exact (Hc y Hy D)]. Qed.

(* per shipped log table: device keys distinct and no two user-demand keys collide under upper-casing *)
Definition log_table_ok (m : tmodule) : bool :=
  match m_kind m with
  | KLog => nodup_str (m_devices m) && nodup_str (map upper (m_demands m))
  | _ => true end.
Lemma log_tables_ok : forallb log_table_ok all_tables = true.
Proof. vm_compute. reflexivity. Qed.

(* the device table covers what the pack tables advertise: every device key of a shipped log table that has a user demand item
   (Ud<key>) is a row of const.DEVICES - except the ones the facade has never handled, listed here so that any NEW gap (a row that
   disappears, a new device in a table) breaks the proof *)
Definition known_unhandled_devices : list string :=
  ["L120"; "Fb"; "TvLift"; "SpkrLift"; "Valve"; "SpeedVSP1"; "SpeedVSP2"; "SpeedVSP3"; "SpeedVSP4"; "SpeedVSP5"].
Definition devices_covered (m : tmodule) : bool :=
  match m_kind m with
  | KLog => forallb (fun d => negb (mem_s (String.append "Ud" d) (m_demands m)) || mem_s d device_keys || mem_s d known_unhandled_devices) (m_devices m)
  | _ => true end.
Lemma all_devices_covered : forallb devices_covered all_tables = true.
Proof. vm_compute. reflexivity. Qed.
(* and the exception list is tight: each entry really is advertised with a demand somewhere and really is not handled *)
Lemma known_unhandled_tight :
  forallb (fun d => negb (mem_s d device_keys) &&
                    existsb (fun m => match m_kind m with KLog => mem_s d (m_devices m) && mem_s (String.append "Ud" d) (m_demands m) | _ => false end) all_tables)
          known_unhandled_devices = true.
Proof. vm_compute. reflexivity. Qed.

Lemma class_of_in d c : class_of devices_table d = Some c -> In d device_keys.
Proof. unfold device_keys. induction devices_table as [|[[[[k n] kp] sk] cl] r IH]; cbn [class_of map fst]; [discriminate|].
  destruct (String.eqb d k) eqn:E; [apply String.eqb_eq in E; subst; left; reflexivity|]. intros H. right. apply IH. exact H. Qed.

Lemma present_incl tbl item_keys x : In x (present_sensors tbl item_keys) -> In x (map snd tbl).
Proof. unfold present_sensors. intros H. apply in_map_iff in H. destruct H as [s [E Hs]]. apply filter_In in Hs. apply in_map_iff. exists s. tauto. Qed.
Lemma present_nodup tbl item_keys : NoDup (map snd tbl) -> NoDup (present_sensors tbl item_keys).
Proof. unfold present_sensors. induction tbl as [|s r IH]; intros H; [constructor|]. cbn [map] in H. inversion H as [|? ? Hs Hr]; subst.
  cbn [filter]. destruct (mem_s (snd (fst s)) item_keys); cbn [map]; [constructor; auto|auto].
  intros C. apply Hs. apply in_map_iff in C. destruct C as [t [E Ht]]. apply filter_In in Ht. apply in_map_iff. exists t. tauto. Qed.

Theorem all_keys_nodup item_keys all_devices demands values :
  NoDup all_devices -> demands_unique demands ->
  NoDup (all_keys devices_table sensors_table binary_sensors_table fixed_keys item_keys all_devices demands values).
Proof.
  intros Hnd Hu. unfold all_keys, scan.
  set (h := handled devices_table (user_devices (actual_devices all_devices values) demands)).
  pose proof (nodup_str_NoDup _ master_nodup) as M. unfold master_keys in M.
  destruct (NoDup_app_l _ _ M) as [M1 [M234 D1]]. destruct (NoDup_app_l _ _ M234) as [M2 [M34 D2]]. destruct (NoDup_app_l _ _ M34) as [M3 [M4 D3]].
  pose proof (user_keys_nodup devices_table all_devices demands values Hnd Hu) as U. fold h in U.
  assert (Uin : forall x, In x (map fst (of_class devices_table CPUMP h) ++ map fst (of_class devices_table CBLOWER h) ++ map fst (of_class devices_table CLIGHT h)) -> In x device_keys).
  { intros x Hx. assert (exists c u, In (x, u) (of_class devices_table c h)) as [c [u Hc]].
    { apply in_app_or in Hx. destruct Hx as [Hx|Hx]; [|apply in_app_or in Hx; destruct Hx as [Hx|Hx]];
        apply in_map_iff in Hx; destruct Hx as [[d u] [E Hd]]; cbn in E; subst; eauto. }
    unfold of_class in Hc. apply filter_In in Hc. destruct Hc as [_ Hc]. cbn [fst] in Hc.
    destruct (class_of devices_table x) as [c'|] eqn:E; [|discriminate]. eapply class_of_in; eauto. }
  assert (E : forall (a b c r : list string), a ++ b ++ c ++ r = (a ++ b ++ c) ++ r) by (intros; rewrite !app_assoc; reflexivity).
  rewrite E.
  apply NoDup_app_intro; [exact U| |].
  - apply NoDup_app_intro; [apply present_nodup; exact M2| |].
    + apply NoDup_app_intro; [apply present_nodup; exact M3|exact M4|].
      intros x Hx. apply D3. eapply present_incl; eauto.
    + intros x Hx C. apply (D2 x); [eapply present_incl; eauto|]. apply in_app_or in C. apply in_or_app.
      destruct C as [C|C]; [left; eapply present_incl; eauto|right; exact C].
  - intros x Hx C. apply (D1 x (Uin x Hx)). apply in_app_or in C. apply in_or_app. destruct C as [C|C]; [left; eapply present_incl; eauto|].
    right. apply in_app_or in C. apply in_or_app. destruct C as [C|C]; [left; eapply present_incl; eauto|right; exact C].
Qed.
