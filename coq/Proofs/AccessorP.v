(* C02: write-then-read and isolation for GeckoStructAccessor, for every block,
   every field position/width and every value. *)
From Coq Require Import ZArith List Bool String Lia.
Require Import GV.Lib.Bytes GV.Lib.Bits GV.Model.Accessor.
Import ListNotations.
Open Scope Z_scope.

(* geometric well-formedness of an accessor w.r.t. a block *)
Record wf (a : acc) (blk : list Z) : Prop := {
  wf_pos : 0 <= a_pos a;
  wf_len : a_len a = if a_two a then 2 else 1;
  wf_in : a_pos a + a_len a <= Z.of_nat (List.length blk);
  wf_bytes : bytes_ok blk = true;
  wf_bits : forall bp, a_bitpos a = Some bp -> exists w, a_mask a = Some (Z.ones w) /\ 0 <= bp /\ 0 < w /\ bp + w <= 8 * a_len a
}.

Lemma bytes_ok_nth blk i : bytes_ok blk = true -> (i < List.length blk)%nat -> 0 <= nth i blk 0 < 256.
Proof. unfold bytes_ok. intros H Hi. rewrite forallb_forall in H. specialize (H (nth i blk 0) (nth_In _ _ Hi)).
  unfold is_byte in H. apply andb_prop in H. destruct H as [A B]. apply Z.leb_le in A. apply Z.ltb_lt in B. lia. Qed.

Lemma In_firstn {A} (x : A) n l : In x (firstn n l) -> In x l.
Proof. revert l. induction n; intros l H; [destruct H|]. destruct l; [destruct H|]. destruct H; [left; auto|right; auto]. Qed.
Lemma In_skipn {A} (x : A) n l : In x (skipn n l) -> In x l.
Proof. revert l. induction n; intros l H; [exact H|]. destruct l; [destruct H|]. right. auto. Qed.

Lemma bytes_ok_slice blk off len : bytes_ok blk = true -> bytes_ok (slice blk off len) = true.
Proof. unfold bytes_ok, slice. intros H. rewrite forallb_forall in *. intros x Hx. apply H.
  apply In_firstn in Hx. apply In_skipn in Hx. exact Hx. Qed.

Section OneAccessor.
  Variables (a : acc) (blk : list Z).
  Hypothesis W : wf a blk.
  Let pos := Z.to_nat (a_pos a).
  Let len := Z.to_nat (a_len a).

  Lemma len_val : len = if a_two a then 2%nat else 1%nat.
  Proof. unfold len. rewrite (wf_len _ _ W). destruct (a_two a); reflexivity. Qed.

  Lemma field_length : List.length (field a blk) = len.
  Proof. unfold field. apply slice_length. pose proof (wf_in _ _ W). pose proof (wf_pos _ _ W).
    pose proof (wf_len _ _ W). fold pos len. unfold pos, len. destruct (a_two a); lia. Qed.

  Lemma field_decodes : exists existing, be_decode (a_two a) (field a blk) = Some existing /\
                                          0 <= existing < 2 ^ (8 * a_len a).
  Proof.
    pose proof field_length as HL. rewrite len_val in HL.
    pose proof (bytes_ok_slice blk pos len (wf_bytes _ _ W)) as HB. fold (field a blk) in HB.
    change (slice blk pos len) with (field a blk) in HB.
    rewrite (wf_len _ _ W). destruct (a_two a) eqn:E.
    - destruct (field a blk) as [|h [|lo [|x r]]] eqn:F; try discriminate HL.
      exists (h * 256 + lo). split; [reflexivity|].
      pose proof (be_decode_range true [h; lo] (h * 256 + lo) HB eq_refl). cbn in *. lia.
    - destruct (field a blk) as [|x [|y r]] eqn:F; try discriminate HL.
      exists x. split; [reflexivity|].
      pose proof (be_decode_range false [x] x HB eq_refl). cbn in *. lia.
  Qed.

  (* the word written by the device write *)
  Definition new_word (existing nv : Z) : option Z :=
    match a_bitpos a with
    | None => Some nv
    | Some bp => match a_mask a with Some m => Some (merge existing nv m bp) | None => None end
    end.

  Lemma write_shape v nv : a_rw a = true -> encode_value a v = Some nv ->
    exists existing nw, be_decode (a_two a) (field a blk) = Some existing /\
      0 <= existing < 2 ^ (8 * a_len a) /\
      new_word existing nv = Some nw /\ write a blk v = Some (a_pos a, a_len a, nw).
  Proof.
    intros Hrw He. destruct field_decodes as [ex [Hd Hr]]. exists ex.
    unfold write, new_word. rewrite Hrw, He, Hd. cbn [negb].
    destruct (a_bitpos a) as [bp|] eqn:Eb.
    - destruct (wf_bits _ _ W bp Eb) as [w [Hm _]]. rewrite Hm. eexists; repeat split; try reflexivity; lia.
    - eexists; repeat split; try reflexivity; lia.
  Qed.

  Lemma new_word_range existing nv nw : 0 <= existing < 2 ^ (8 * a_len a) -> new_word existing nv = Some nw ->
    (a_bitpos a = None -> 0 <= nv < 2 ^ (8 * a_len a)) -> 0 <= nw < 2 ^ (8 * a_len a).
  Proof.
    unfold new_word. intros He Hn Hnb. destruct (a_bitpos a) as [bp|] eqn:Eb.
    - destruct (wf_bits _ _ W bp Eb) as [w [Hm [H1 [H2 H3]]]]. rewrite Hm in Hn. inversion Hn; subst.
      apply merge_range; lia.
    - inversion Hn; subst. auto.
  Qed.

  Lemma pow_len : 2 ^ (8 * a_len a) = if a_two a then 65536 else 256.
  Proof. rewrite (wf_len _ _ W). destruct (a_two a); reflexivity. Qed.

  Lemma apply_shape nw : 0 <= nw < 2 ^ (8 * a_len a) ->
    exists bs, be_encode (a_two a) nw = Some bs /\ List.length bs = len /\
      apply_write blk (a_pos a, a_len a, nw) = Some (splice blk pos bs).
  Proof.
    intros Hr. rewrite pow_len in Hr. unfold apply_write. rewrite (wf_len _ _ W). rewrite len_val.
    destruct (a_two a); cbn [Z.eqb Pos.eqb].
    - unfold be_encode. replace ((0 <=? nw) && (nw <? 65536)) with true
        by (symmetry; apply andb_true_intro; split; [apply Z.leb_le|apply Z.ltb_lt]; lia).
      eexists; repeat split; reflexivity.
    - unfold be_encode. replace ((0 <=? nw) && (nw <? 256)) with true
        by (symmetry; apply andb_true_intro; split; [apply Z.leb_le|apply Z.ltb_lt]; lia).
      eexists; repeat split; reflexivity.
  Qed.

  Lemma pos_in : (pos <= List.length blk)%nat.
  Proof. unfold pos. pose proof (wf_in _ _ W). pose proof (wf_pos _ _ W). pose proof (wf_len _ _ W).
    destruct (a_two a); lia. Qed.

  (* reading the item back from the block the write was applied to *)
  Lemma read_back nw bs : be_encode (a_two a) nw = Some bs -> List.length bs = len ->
    raw_get a (splice blk pos bs) =
      match a_bitpos a with
      | None => Some nw
      | Some bp => match a_mask a with Some m => Some (getf nw m bp) | None => None end
      end.
  Proof.
    intros He Hl. unfold raw_get, field. fold pos len. rewrite <- Hl.
    rewrite slice_splice_same by apply pos_in. rewrite (be_roundtrip _ _ _ He). reflexivity.
  Qed.

  (* ---------------- main theorems for one accessor ---------------- *)

  (* write, apply, read: the raw value read back *)
  Theorem write_then_read_raw v nv :
    a_rw a = true -> encode_value a v = Some nv ->
    (a_bitpos a = None -> 0 <= nv < 2 ^ (8 * a_len a)) ->
    exists w blk', write a blk v = Some w /\ apply_write blk w = Some blk' /\
      List.length blk' = List.length blk /\
      raw_get a blk' = Some (match a_bitpos a, a_mask a with Some _, Some m => Z.land nv m | _, _ => nv end).
  Proof.
    intros Hrw He Hnb.
    destruct (write_shape v nv Hrw He) as [ex [nw [Hd [Hr [Hn Hw]]]]].
    pose proof (new_word_range ex nv nw Hr Hn Hnb) as Hnr.
    destruct (apply_shape nw Hnr) as [bs [Hbs [Hl Ha]]].
    exists (a_pos a, a_len a, nw), (splice blk pos bs). repeat split; auto.
    - apply splice_length. rewrite Hl. pose proof (wf_in _ _ W). pose proof (wf_pos _ _ W). pose proof (wf_len _ _ W).
      unfold pos, len. destruct (a_two a); lia.
    - rewrite (read_back nw bs Hbs Hl). unfold new_word in Hn.
      destruct (a_bitpos a) as [bp|] eqn:Eb.
      + destruct (wf_bits _ _ W bp Eb) as [w [Hm [H1 [H2 H3]]]]. rewrite Hm in *. inversion Hn; subst.
        f_equal. apply read_after_write; lia.
      + inversion Hn; subst. reflexivity.
  Qed.

  (* every byte outside the item's own bytes is unchanged *)
  Theorem write_isolated_bytes v w blk' i :
    write a blk v = Some w -> apply_write blk w = Some blk' ->
    (Z.of_nat i < a_pos a \/ a_pos a + a_len a <= Z.of_nat i) -> nth i blk' 0 = nth i blk 0.
  Proof.
    intros Hw Ha Hi. unfold write in Hw. destruct (negb (a_rw a)); [discriminate|].
    destruct (encode_value a v) as [nv|]; [|discriminate].
    destruct (be_decode (a_two a) (field a blk)) as [ex|]; [|discriminate].
    assert (Hwf : exists nw, w = (a_pos a, a_len a, nw)).
    { destruct (a_bitpos a); [destruct (a_mask a); [|discriminate]|]; inversion Hw; eauto. }
    destruct Hwf as [nw ->]. unfold apply_write in Ha. rewrite (wf_len _ _ W) in Ha.
    pose proof (wf_len _ _ W) as HL. pose proof (wf_pos _ _ W) as HP.
    destruct (a_two a); cbn [Z.eqb Pos.eqb] in Ha.
    - destruct (be_encode true nw) as [bs|] eqn:E; [|discriminate]. inversion Ha; subst.
      pose proof (be_encode_length _ _ _ E) as Hbl. cbn in Hbl.
      destruct Hi as [Hi|Hi].
      + apply splice_nth_before; [lia|apply pos_in].
      + apply splice_nth_after; [rewrite Hbl; lia|apply pos_in].
    - destruct (be_encode false nw) as [bs|] eqn:E; [|discriminate]. inversion Ha; subst.
      pose proof (be_encode_length _ _ _ E) as Hbl. cbn in Hbl.
      destruct Hi as [Hi|Hi].
      + apply splice_nth_before; [lia|apply pos_in].
      + apply splice_nth_after; [rewrite Hbl; lia|apply pos_in].
  Qed.

  (* inside the item's bytes, every bit of the big-endian word outside [bp, bp+w) is unchanged *)
  Theorem write_isolated_bits v w blk' bp wd j ex ex' :
    write a blk v = Some w -> apply_write blk w = Some blk' ->
    a_bitpos a = Some bp -> a_mask a = Some (Z.ones wd) ->
    be_decode (a_two a) (field a blk) = Some ex -> be_decode (a_two a) (field a blk') = Some ex' ->
    0 <= j -> (j < bp \/ bp + wd <= j) -> Z.testbit ex' j = Z.testbit ex j.
  Proof.
    intros Hw Ha Hb Hm Hd Hd' Hj Hout.
    destruct (wf_bits _ _ W bp Hb) as [w0 [Hm0 [H1 [H2 H3]]]].
    assert (w0 = wd).
    { rewrite Hm in Hm0. inversion Hm0 as [Ho]. rewrite !Z.ones_equiv in Ho.
      assert (2 ^ wd = 2 ^ w0) by lia.
      destruct (Z.lt_ge_cases wd 0) as [Hneg|Hge].
      - rewrite (Z.pow_neg_r 2 wd Hneg) in H. pose proof (Z.pow_pos_nonneg 2 w0 ltac:(lia) ltac:(lia)). lia.
      - symmetry. apply (Z.pow_inj_r 2); lia. }
    subst w0.
    unfold write in Hw. destruct (negb (a_rw a)); [discriminate|].
    destruct (encode_value a v) as [nv|]; [|discriminate]. rewrite Hd, Hb, Hm in Hw. inversion Hw; subst w. clear Hw.
    destruct field_decodes as [ex0 [Hd0 Hr0]]. rewrite Hd in Hd0. inversion Hd0; subst ex0.
    assert (Hnr : 0 <= merge ex nv (Z.ones wd) bp < 2 ^ (8 * a_len a)) by (apply merge_range; lia).
    destruct (apply_shape _ Hnr) as [bs [Hbs [Hl Hap]]]. rewrite Hap in Ha. inversion Ha; subst blk'.
    unfold field in Hd'. fold pos len in Hd'. rewrite <- Hl in Hd'. rewrite slice_splice_same in Hd' by apply pos_in.
    rewrite (be_roundtrip _ _ _ Hbs) in Hd'. inversion Hd'; subst ex'.
    apply outside_unchanged; lia.
  Qed.
End OneAccessor.

(* ---------------- value layer ---------------- *)

Lemma index_of_nth s l i : index_of s l = Some i -> 0 <= i < Z.of_nat (List.length l) /\ nth (Z.to_nat i) l "Unknown"%string = s.
Proof.
  revert i. induction l as [|x r IH]; intros i H; [discriminate|]. cbn [index_of] in H.
  destruct (String.eqb s x) eqn:E.
  - inversion H; subst. apply String.eqb_eq in E. subst. cbn. split; [lia|reflexivity].
  - destruct (index_of s r) as [k|]; [|discriminate]. inversion H; subst. destruct (IH k eq_refl) as [A B].
    split; [cbn [List.length]; lia|]. rewrite Z2Nat.inj_succ by lia. cbn [nth]. exact B.
Qed.

Lemma index_of_In s l : In s l -> exists i, index_of s l = Some i.
Proof. induction l as [|x r IH]; intros H; [destruct H|]. cbn [index_of].
  destruct (String.eqb s x) eqn:E; [eexists; reflexivity|]. destruct H as [H|H].
  - subst. rewrite String.eqb_refl in E. discriminate.
  - destruct (IH H) as [k Hk]. rewrite Hk. eexists; reflexivity. Qed.

(* the decoded value after write+apply equals the value written, per type *)
Theorem enum_roundtrip a blk l :
  wf a blk -> a_type a = TEnum -> a_rw a = true -> In l (a_items a) ->
  (* every label representable in the field *)
  (match a_bitpos a, a_mask a with
   | Some _, Some m => Z.of_nat (List.length (a_items a)) <= m + 1
   | _, _ => Z.of_nat (List.length (a_items a)) <= 2 ^ (8 * a_len a) end) ->
  exists w blk', write a blk (VStr l) = Some w /\ apply_write blk w = Some blk' /\ get_value a blk' = Some (VStr l).
Proof.
  intros W Ht Hrw Hin Hcap.
  destruct (index_of_In l _ Hin) as [i Hi]. destruct (index_of_nth _ _ _ Hi) as [Hr Hn].
  assert (He : encode_value a (VStr l) = Some i) by (unfold encode_value; rewrite Ht; exact Hi).
  assert (Hnb : a_bitpos a = None -> 0 <= i < 2 ^ (8 * a_len a)).
  { intros Hb. rewrite Hb in Hcap. lia. }
  destruct (write_then_read_raw a blk W (VStr l) i Hrw He Hnb) as [w [blk' [Hw [Ha [_ Hg]]]]].
  exists w, blk'. repeat split; auto. unfold get_value. rewrite Hg. cbn [option_map]. f_equal.
  assert (Hraw : (match a_bitpos a, a_mask a with Some _, Some m => Z.land i m | _, _ => i end) = i).
  { destruct (a_bitpos a) as [bp|] eqn:Eb; [|reflexivity].
    destruct (wf_bits _ _ W bp Eb) as [wd [Hm [H1 [H2 H3]]]]. rewrite Hm in *.
    apply land_ones_small; [lia|]. rewrite Z.ones_equiv in Hcap. lia. }
  rewrite Hraw. unfold decode. rewrite Ht. now rewrite Hn.
Qed.

Theorem bool_roundtrip a blk b :
  wf a blk -> a_type a = TBool -> a_rw a = true ->
  exists w blk', write a blk (VBool b) = Some w /\ apply_write blk w = Some blk' /\ get_value a blk' = Some (VBool b).
Proof.
  intros W Ht Hrw. set (nv := if b then 1 else 0).
  assert (He : encode_value a (VBool b) = Some nv) by (unfold encode_value; rewrite Ht; reflexivity).
  assert (Hnb : a_bitpos a = None -> 0 <= nv < 2 ^ (8 * a_len a)).
  { intros _. rewrite (wf_len _ _ W). unfold nv. destruct (a_two a), b; cbn; lia. }
  destruct (write_then_read_raw a blk W (VBool b) nv Hrw He Hnb) as [w [blk' [Hw [Ha [_ Hg]]]]].
  exists w, blk'. repeat split; auto. unfold get_value. rewrite Hg. cbn [option_map]. f_equal.
  assert (Hraw : (match a_bitpos a, a_mask a with Some _, Some m => Z.land nv m | _, _ => nv end) = nv).
  { destruct (a_bitpos a) as [bp|] eqn:Eb; [|reflexivity].
    destruct (wf_bits _ _ W bp Eb) as [wd [Hm [H1 [H2 H3]]]]. rewrite Hm.
    apply land_ones_small; [lia|]. unfold nv.
    assert (2 ^ 1 <= 2 ^ wd) by (apply Z.pow_le_mono_r; lia). destruct b; cbn in *; lia. }
  rewrite Hraw. unfold decode. rewrite Ht. unfold nv. destruct b; reflexivity.
Qed.

Theorem int_roundtrip a blk z :
  wf a blk -> (a_type a = TByte \/ a_type a = TWord) -> a_rw a = true -> a_bitpos a = None ->
  0 <= z < 2 ^ (8 * a_len a) ->
  exists w blk', write a blk (VInt z) = Some w /\ apply_write blk w = Some blk' /\ get_value a blk' = Some (VInt z).
Proof.
  intros W Ht Hrw Hb Hz.
  assert (He : encode_value a (VInt z) = Some z) by (unfold encode_value; destruct Ht as [-> | ->]; reflexivity).
  destruct (write_then_read_raw a blk W (VInt z) z Hrw He (fun _ => Hz)) as [w [blk' [Hw [Ha [_ Hg]]]]].
  exists w, blk'. repeat split; auto. unfold get_value. rewrite Hg, Hb. cbn [option_map]. f_equal.
  unfold decode. destruct Ht as [-> | ->]; reflexivity.
Qed.

Theorem time_roundtrip a blk h m :
  wf a blk -> a_type a = TTime -> a_rw a = true -> a_bitpos a = None -> a_two a = true ->
  0 <= h < 256 -> 0 <= m < 256 ->
  exists w blk', write a blk (VTime h m) = Some w /\ apply_write blk w = Some blk' /\ get_value a blk' = Some (VTime h m).
Proof.
  intros W Ht Hrw Hb Htwo Hh Hm.
  assert (He : encode_value a (VTime h m) = Some (h * 256 + m mod 256)) by (unfold encode_value; rewrite Ht; reflexivity).
  assert (Hz : 0 <= h * 256 + m mod 256 < 2 ^ (8 * a_len a)).
  { rewrite (wf_len _ _ W), Htwo. rewrite Z.mod_small by lia. cbn. lia. }
  destruct (write_then_read_raw a blk W _ _ Hrw He (fun _ => Hz)) as [w [blk' [Hw [Ha [_ Hg]]]]].
  exists w, blk'. repeat split; auto. unfold get_value. rewrite Hg, Hb. cbn [option_map]. f_equal.
  unfold decode. rewrite Ht. rewrite (Z.mod_small m) by lia. f_equal.
  - rewrite Z.div_add_l by lia. rewrite Z.div_small by lia. lia.
  - rewrite Z.add_comm, Z.mod_add by lia. apply Z.mod_small; lia.
Qed.

Theorem write_refused a blk v : a_rw a = false -> write a blk v = None.
Proof. intros H. unfold write. now rewrite H. Qed.

(* string forms: "true"/"True"/... and canonical decimal text give the same device write *)
Theorem bool_string_same a blk s b :
  a_type a = TBool -> String.eqb (lower s) "true" = b -> write a blk (VStr s) = write a blk (VBool b).
Proof. intros Ht Hs. unfold write, encode_value. rewrite Ht, Hs. reflexivity. Qed.

Theorem int_string_same a blk s z :
  (a_type a = TByte \/ a_type a = TWord) -> parse_dec s = Some z -> write a blk (VStr s) = write a blk (VInt z).
Proof. intros Ht Hs. unfold write, encode_value. destruct Ht as [-> | ->]; rewrite Hs; reflexivity. Qed.

(* reading never raises on a well-formed accessor *)
Theorem get_value_total a blk : wf a blk -> exists v, get_value a blk = Some v.
Proof.
  intros W. destruct (field_decodes a blk W) as [ex [Hd _]]. unfold get_value, raw_get. rewrite Hd.
  destruct (a_bitpos a) as [bp|] eqn:Eb.
  - destruct (wf_bits _ _ W bp Eb) as [w [Hm _]]. rewrite Hm. cbn. eauto.
  - cbn. eauto.
Qed.
